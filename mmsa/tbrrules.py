"""Rules shared by C06, C07, C18 on tbr.TBR and tbr_iroas.TBRiROAS."""
import ast
import re

from mmsa import au, cfg as cfgmod, dataflow
from mmsa.core import Undecided, norm, walk_no_nested
from mmsa.types import FuncCtx

INF = float('inf')


# -- tiny interval domain -------------------------------------------------------
class Iv:
  def __init__(self, lo, hi, lo_open=False, hi_open=False):
    self.lo, self.hi, self.lo_open, self.hi_open = lo, hi, lo_open, hi_open

  def __repr__(self):
    return '%s%s, %s%s' % ('(' if self.lo_open else '[', self.lo, self.hi, ')' if self.hi_open else ']')

  def le(self, c):
    """every value <= c"""
    return self.hi < c or (self.hi == c)

  def ge(self, c):
    return self.lo > c or (self.lo == c)


def iv_eval(e, env):
  ok, v = au.const(e)
  if ok and isinstance(v, (int, float)) and not isinstance(v, bool):
    return Iv(v, v)
  if isinstance(e, ast.Name) and e.id in env:
    return env[e.id]
  if isinstance(e, ast.BinOp):
    a, b = iv_eval(e.left, env), iv_eval(e.right, env)
    if a is None or b is None:
      return None
    if isinstance(e.op, ast.Add):
      return Iv(a.lo + b.lo, a.hi + b.hi, a.lo_open or b.lo_open, a.hi_open or b.hi_open)
    if isinstance(e.op, ast.Sub):
      return Iv(a.lo - b.hi, a.hi - b.lo, a.lo_open or b.hi_open, a.hi_open or b.lo_open)
    if isinstance(e.op, ast.Mult):
      if a.lo == a.hi and a.lo >= 0:
        return Iv(a.lo * b.lo, a.lo * b.hi, b.lo_open, b.hi_open)
      if b.lo == b.hi and b.lo >= 0:
        return Iv(a.lo * b.lo, a.hi * b.lo, a.lo_open, a.hi_open)
      return None
    if isinstance(e.op, ast.Div):
      if b.lo == b.hi and b.lo > 0:
        return Iv(a.lo / b.lo, a.hi / b.lo, a.lo_open, a.hi_open)
      return None
  return None


def decide_scalar(e, facts):
  """Truth value of a comparison of a name with constants under concrete values of scalar names, or None."""
  if isinstance(e, ast.UnaryOp) and isinstance(e.op, ast.Not):
    v = decide_scalar(e.operand, facts)
    return None if v is None else not v
  if isinstance(e, ast.Compare) and len(e.ops) == 1 and isinstance(e.left, ast.Name) and e.left.id in facts:
    v = facts[e.left.id]
    op, r = e.ops[0], e.comparators[0]
    ok, c = au.const(r)
    if ok and isinstance(op, (ast.Is, ast.IsNot)) and c is None:
      return (v is None) if isinstance(op, ast.Is) else (v is not None)
    if ok and c is not None and v is not None:
      return {ast.Eq: v == c, ast.NotEq: v != c, ast.Lt: v < c, ast.LtE: v <= c, ast.Gt: v > c, ast.GtE: v >= c}.get(type(op))
    if isinstance(r, (ast.Tuple, ast.List, ast.Set)) and all(au.const(x)[0] for x in r.elts):
      vals = [au.const(x)[1] for x in r.elts]
      if isinstance(op, ast.In):
        return v in vals
      if isinstance(op, ast.NotIn):
        return v not in vals
  # truthiness of a name with a concrete value; isinstance of a concrete int / None against the usual classes
  if isinstance(e, ast.Name) and e.id in facts:
    return bool(facts[e.id])
  if isinstance(e, ast.Call) and isinstance(e.func, ast.Name) and e.func.id == 'isinstance' and len(e.args) == 2 and isinstance(e.args[0], ast.Name) and e.args[0].id in facts:
    v = facts[e.args[0].id]
    names = [norm(x).split('.')[-1] for x in (e.args[1].elts if isinstance(e.args[1], (ast.Tuple, ast.List)) else [e.args[1]])]
    if isinstance(v, int) and not isinstance(v, bool):
      if any(n_ in ('int', 'Integral', 'Number', 'Real', 'Rational', 'integer', 'object') for n_ in names):
        return True
      if all(n_ in ('RandomState', 'Generator', 'str', 'float', 'list', 'tuple', 'dict', 'set', 'ndarray', 'BitGenerator', 'SeedSequence', 'bool', 'bytes', 'complex', 'frozenset', 'Series', 'DataFrame', 'Timestamp', 'floating') for n_ in names):
        return False
    if v is None:
      return True if any(n_ in ('NoneType', 'object') for n_ in names) else (False if all(n_[:1].isupper() or n_ in ('int', 'float', 'str', 'integer') for n_ in names) else None)
  if isinstance(e, ast.BoolOp):
    vs = [decide_scalar(x, facts) for x in e.values]
    if isinstance(e.op, ast.And):
      return False if any(v is False for v in vs) else (True if all(v is True for v in vs) else None)
    return True if any(v is True for v in vs) else (False if all(v is False for v in vs) else None)
  return None


def dead_under(expr, facts, resolve=None):
  """The sub-expression sits in the branch of a conditional expression that is not evaluated under `facts`
  (`resolve` expands a named condition: one_sided = tails == 1)."""
  cur, par = expr, getattr(expr, '_parent', None)
  while par is not None and not isinstance(par, ast.stmt):
    if isinstance(par, ast.IfExp) and cur is not par.test:
      v = decide_scalar(par.test, facts)
      if v is None and resolve is not None:
        try:
          v = decide_scalar(resolve(par.test), facts)
        except Exception:
          v = None
      if v is not None and ((v and cur is par.orelse) or ((not v) and cur is par.body)):
        return True
    cur, par = par, getattr(par, '_parent', None)
  return False


def edge_filter_for(g, facts):
  """Prune branches decided by concrete values of scalar names, e.g. {'tails': 1}."""
  def decide(e):
    v_ = decide_scalar(e, facts)
    if v_ is not None:
      return v_
    if isinstance(e, ast.Compare) and len(e.ops) == 1 and isinstance(e.left, ast.Name) and e.left.id in facts:
      v = facts[e.left.id]
      op, r = e.ops[0], e.comparators[0]
      ok, c = au.const(r)
      if ok:
        return {ast.Eq: v == c, ast.NotEq: v != c, ast.Lt: v < c, ast.LtE: v <= c, ast.Gt: v > c, ast.GtE: v >= c}.get(type(op))
      if isinstance(r, (ast.Tuple, ast.List, ast.Set)) and all(au.const(x)[0] for x in r.elts):
        vals = [au.const(x)[1] for x in r.elts]
        if isinstance(op, ast.In):
          return v in vals
        if isinstance(op, ast.NotIn):
          return v not in vals
    return None
  rd0 = dataflow.Reaching(g)

  def decide_at(n):
    v_ = decide(n.expr)
    if v_ is None:
      # a named condition (`one_sided = tails == 1 ... if not one_sided:`) is looked through
      ex_ = rd0.expand(n, n.expr, keep=tuple(facts))[0]
      neg_ = False
      while isinstance(ex_, ast.UnaryOp) and isinstance(ex_.op, ast.Not):
        ex_, neg_ = ex_.operand, not neg_
      v_ = decide(ex_)
      if v_ is not None and neg_:
        v_ = not v_
    return v_
  verdict = {n: decide_at(n) for n in g.nodes if n.kind == 'test'}

  def ok(a, b, lab):
    if lab == 'exc':
      return False
    v = verdict.get(a)
    if a.kind == 'test' and v is not None:
      if v and lab == 'false':
        return False
      if (not v) and lab == 'true':
        return False
    return True
  return ok


def quantile_order(rep, f, rule, level_iv, sites_fn, prop_hint='', level_open=''):
  """For tails in {1,2}: the argument of every 'lower' quantile is <= 0.5 and of every 'upper' quantile >= 0.5.
  sites_fn(ctx, rd, reach) yields (kind, arg_expr, node, what) with kind in {'lower','upper','lower-pct','upper-pct'}."""
  ctx = FuncCtx.of(f)
  g = ctx.g
  n_ob = 0
  for tails in (1, 2):
    ef = edge_filter_for(g, {'tails': tails})
    rd = dataflow.Reaching(g, ef)
    reach = g.reachable(g.entry, ef)
    env = {'level': level_iv, 'tails': Iv(tails, tails)}
    for kind, arg, node, what in sites_fn(ctx, rd, reach):
      if node not in reach or dead_under(arg, {'tails': tails}, lambda t_, node=node: rd.expand(node, t_, keep=('level', 'tails'))[0]):
        continue
      ex = rd.expand(node, arg, keep=('level', 'tails'))[0]
      iv = iv_eval(ex, env)
      scale = 100.0 if kind.endswith('-pct') else 1.0
      n_ob += 1
      if iv is None:
        rep.undecided(rule, '%s (tails=%d)' % (what, tails), 'quantile argument not understood: %s' % norm(ex), f.loc(arg))
        continue
      good = iv.le(0.5 * scale) if kind.startswith('lower') else iv.ge(0.5 * scale)
      if not good and level_open:
        # would the argument be on the right side for level in [0, 1]?  then the verdict hangs on the unrecognised guard
        iv01 = iv_eval(ex, {'level': Iv(0.0, 1.0), 'tails': Iv(tails, tails)})
        if iv01 is not None and (iv01.le(0.5 * scale) if kind.startswith('lower') else iv01.ge(0.5 * scale)):
          rep.undecided(rule, '%s (tails=%d)' % (what, tails), 'the range of level is not established (%s): for level in [0, 1] the argument `%s` is on the right side' % (level_open, norm(ex)), f.loc(arg))
          continue
      rep.check(good, rule, 'tails=%d: %s quantile argument %s in %r is on the right side of the median' % (tails, what, norm(ex), iv), f.qualname,
                'tails=%d: %s quantile argument %s' % (tails, kind, norm(ex)),        # keyed by the side and the argument, not by the name of the column / local
                'with tails=%d the %s is the quantile at `%s`, which ranges over %r for level in %r: for level < 0.5 it lies on the wrong side of the median, so lower <= estimate <= upper fails%s'
                % (tails, what, norm(ex), iv, level_iv, prop_hint), f.loc(arg))
  return n_ob


# -- sign domain ---------------------------------------------------------------------
def nonneg(ctx, node, e, depth=8):
  """True if the expression is certainly >= 0 (element-wise)."""
  if depth <= 0:
    return False
  ok, v = au.const(e)
  if ok and isinstance(v, (int, float)):
    return v >= 0
  if isinstance(e, ast.Call):
    fn = norm(e.func)
    if fn in ('np.abs', 'abs', 'np.absolute', 'np.fabs', 'np.sqrt', 'math.sqrt', 'math.fabs', 'np.square', 'np.exp', 'len'):
      return True
    if isinstance(e.func, ast.Attribute) and e.func.attr in ('flatten', 'reshape', 'ravel', 'squeeze', 'copy', 'cumsum', 'sum') \
        and not (isinstance(e.func.value, ast.Name) and e.func.value.id in ('np', 'numpy', 'math')):
      return nonneg(ctx, node, e.func.value, depth - 1)
    if fn in ('np.array', 'np.asarray', 'float') and e.args:
      return nonneg(ctx, node, e.args[0], depth - 1)
    return False
  if isinstance(e, ast.BinOp):
    if isinstance(e.op, (ast.Mult, ast.Div, ast.Add)):
      return nonneg(ctx, node, e.left, depth - 1) and nonneg(ctx, node, e.right, depth - 1)
    if isinstance(e.op, ast.Pow):
      ok, k = au.const(e.right)
      return ok and isinstance(k, int) and k % 2 == 0 or nonneg(ctx, node, e.left, depth - 1)
    return False
  if isinstance(e, ast.Subscript):
    return nonneg(ctx, node, e.value, depth - 1)
  if isinstance(e, ast.Name):
    ds = ctx.rd.defs_at(node, e.id)
    return bool(ds) and all(d.how == 'assign' and d.value is not None and nonneg(ctx, d.node, d.value, depth - 1) for d in ds)
  if isinstance(e, ast.Attribute) and norm(e).endswith('.scale'):
    return True     # statsmodels residual variance estimate
  return False


# -- TBR structure ------------------------------------------------------------------------
ORDERING_OPS = {'groupby', 'pivot_table', 'pivot', 'sort_index', 'sort_values', 'resample', 'sorted', 'sort', 'argsort', 'reindex', 'unstack', 'stack', 'merge',
                'join', 'crosstab', 'lexsort'}


def _feeding_calls(ctx, node, expr):
  """Names of all functions/methods called in `expr` and, transitively, in every definition that may reach a local it reads."""
  ops, seen, work = set(), set(), [(node, expr)]
  while work and len(seen) < 200:
    n_, x_ = work.pop()
    for sub in ast.walk(x_):
      if isinstance(sub, ast.Call):
        ops.add(sub.func.attr if isinstance(sub.func, ast.Attribute) else norm(sub.func))
      if isinstance(sub, ast.Name) and isinstance(sub.ctx, ast.Load):
        for d_ in ctx.rd.defs_at(n_, sub.id):
          if d_.value is not None and id(d_) not in seen:
            seen.add(id(d_))
            work.append((d_.node, d_.value))
  return ops


def tbr_aggregation(repo, rep, rule):
  cls = repo.cls('tbr.TBR')
  fit = cls.methods.get('fit')
  con = cls.methods.get('_construct_analysis_data')
  if fit is None or con is None:
    raise Undecided('TBR.fit/_construct_analysis_data vanished')
  rep.fn(fit)
  rep.fn(con)
  frame = fit.params[1]
  uses = [n for n in walk_no_nested(fit.node) if isinstance(n, ast.Name) and n.id == frame and isinstance(n.ctx, ast.Load)]
  okuse = all(isinstance(u._parent, ast.Call) and norm(u._parent.func) == 'self._construct_analysis_data' for u in uses)
  rep.check(bool(uses) and okuse, rule, 'the raw frame reaches the model only through the aggregation', fit.qualname,
            '; '.join(sorted({norm(au.enclosing_stmt(u))[:60] for u in uses})),
            'TBR.fit uses the raw frame outside _construct_analysis_data (%s): unaggregated rows (row order, geos per group) can influence the result'
            % '; '.join(sorted({norm(au.enclosing_stmt(u))[:60] for u in uses if not (isinstance(u._parent, ast.Call) and norm(u._parent.func) == 'self._construct_analysis_data')})), fit.loc())
  ctx = FuncCtx.of(con)
  data = con.params[1]
  st = [n for n in ctx.g.nodes if n.kind == 'stmt' and isinstance(n.ast, ast.Assign) and any(norm(t) == 'self.analysis_data' for t in n.ast.targets)]
  if not st:
    rep.undecided(rule, '_construct_analysis_data', 'expected a store to self.analysis_data', con.loc())
    return
  for st0 in st:
    ex = ctx.rd.expand(st0, st0.ast.value, keep=(data,))[0]
    t = norm(ex)
    m = re.fullmatch(r"%s\.groupby\((.+?)\)\.agg\((.+)\)" % data, t)
    good = False
    why = 'shape'
    if m:
      gargs, aargs = m.group(1), m.group(2)
      keys_ok = re.match(r'\[self\.df_names\.group, self\.df_names\.date\]', gargs) is not None
      extra = gargs[len('[self.df_names.group, self.df_names.date]'):] if keys_ok else gargs
      agg_ok = aargs.replace(' ', '') in ("{self.target:'sum',self.df_names.period:'max'}", "{self.df_names.period:'max',self.target:'sum'}")
      sort_off = 'sort=False' in extra
      asidx = 'as_index=False' in extra
      good = keys_ok and agg_ok and not sort_off and not asidx
      why = ('groupby keys are %s' % gargs if not keys_ok else '') + (' aggregation is %s' % aargs if not agg_ok else '') + \
            (' sort=False keeps the input row order, so the per-date series follow the order of the input rows' if sort_off else '') + (' as_index=False' if asidx else '')
    elif len(st) > 1:
      # one of several stores (a fast path next to the aggregation): the stored frame must at least be ordered by its
      # keys somewhere on the way from the raw rows; a store with no ordering operation at all keeps the input row order
      ops = _feeding_calls(ctx, st0, st0.ast.value)
      if not (ops & ORDERING_OPS):
        rep.violation(rule, con.qualname, t[:160],
                      'on one path the analysis data are stored as `%s` with no grouping or sorting by (group, date) on the way from the raw rows (operations: %s): the series keep the order of the input rows, so row order changes the fit'
                      % (t[:100], ', '.join(sorted(ops)) or 'none'), con.loc(st0.ast))
      else:
        rep.undecided(rule, '_construct_analysis_data', 'one of %d stores to self.analysis_data has an unrecognised shape: %s' % (len(st), t[:80]), con.loc(st0.ast))
      continue
    if not good and m is None:
      # not of the form data.groupby(K).agg(A): decided only by what is recognisable in it
      ops = _feeding_calls(ctx, st0, st0.ast.value)
      if not (ops & ORDERING_OPS):
        rep.violation(rule, con.qualname, t[:160],
                      'the analysis data are stored as `%s` with no grouping or sorting by (group, date) on the way from the raw rows (operations: %s): the series keep the order of the input rows'
                      % (t[:100], ', '.join(sorted(ops)) or 'none'), con.loc(st0.ast))
      else:
        rep.undecided(rule, '_construct_analysis_data', 'the analysis data are built as `%s`: not the recognised groupby(keys).agg(sums) form' % t[:100], con.loc(st0.ast))
      continue
    if not good and m is not None:
      # recognised wrong: sort=False / as_index=False, or keys / aggregation that are closed terms but different
      al_ = au.aliens(ex, {data})
      if al_ and not (sort_off or asidx):
        rep.undecided(rule, '_construct_analysis_data', 'the analysis data are built as `%s`, which reads unresolved names (%s)' % (t[:100], ', '.join(al_)), con.loc(st0.ast))
        continue
      # keyword spellings of the same call: agg(func={...}) ; attribute tables for the keys
      aargs2 = re.sub(r'^func=', '', aargs.replace(' ', ''))
      if keys_ok and not sort_off and not asidx and aargs2 in ("{self.target:'sum',self.df_names.period:'max'}", "{self.df_names.period:'max',self.target:'sum'}"):
        good = True
      elif not keys_ok and ('attrgetter' in gargs or 'getattr' in gargs or 'for ' in gargs):
        rep.undecided(rule, '_construct_analysis_data', 'the group keys `%s` are computed: not followed' % gargs[:80], con.loc(st0.ast))
        continue
    rep.check(good, rule, 'analysis data = per-(group, date) sums, sorted by the keys', con.qualname, t[:160],
              'the analysis data are built as `%s`: %s' % (t[:120], why), con.loc(st0.ast))
  # label-based selection of the two groups
  for name, grp in (('_response_vector', 'self.groups.treatment'), ('_design_matrix', 'self.groups.control')):
    f = cls.methods.get(name)
    if f is None:
      raise Undecided('%s vanished' % name)
    rep.fn(f)
    c2 = FuncCtx.of(f)
    found = False
    for n in c2.g.nodes:
      for e in c2.node_exprs(n):
        for sub in walk_no_nested(e):
          if isinstance(sub, ast.Subscript) and isinstance(sub.value, ast.Attribute) and sub.value.attr == 'loc':
            sel = norm(c2.rd.expand(n, sub.slice)[0])
            base = norm(c2.rd.expand(n, sub.value.value, keep=tuple(f.params))[0])
            found = True
            rep.check(sel == grp and base == 'self.analysis_data[%s]' % f.params[1], rule, '%s selects the rows of %s by label from the period-filtered data' % (name, grp),
                      f.qualname, '%s.loc[%s]' % (base, sel), '%s selects `%s.loc[%s]` instead of the %s rows of the requested periods' % (name, base, sel, grp), f.loc(sub))
    if not found:
      rep.undecided(rule, name, 'no .loc selection found', f.loc())
  # the design matrix is (1, control series): an intercept column is added in front
  dm = cls.methods.get('_design_matrix')
  if dm is not None:
    txt = norm(dm.node)
    okc = re.search(r"\.insert\(0, '\w+', 1(\.0)?\)", txt) is not None or 'add_constant(' in txt
    rep.check(okc, rule, 'the regression has an intercept: constant column in front of the control series', dm.qualname, 'design matrix construction',
              '_design_matrix no longer adds the constant column in front of the control series: the counterfactual is not the OLS fit with intercept (and the parameter covariance no longer matches the running means)',
              dm.loc())


DVOC = {'rescale', 'one_to_t', 'var_params', 'causal_response', 'len_test', 'periods', 't', 'cntrl_mat', 'time'}


def _strip_shape(e):
  """Drop wrappers that only change the array shape/type, at every level."""
  def core(x):
    while True:
      if isinstance(x, ast.Call) and norm(x.func) in ('np.array', 'numpy.array', 'np.asarray') and len(x.args) == 1 and not x.keywords:
        x = x.args[0]
      elif isinstance(x, ast.Call) and isinstance(x.func, ast.Attribute) and x.func.attr in ('reshape', 'flatten', 'ravel', 'squeeze'):
        x = x.func.value
      else:
        return x

  def deep(x):
    x = core(dataflow.clone(x))
    return dataflow._map_children(x, deep) if isinstance(x, ast.AST) else x
  return deep(e)


def _scale_shape(e):
  """|rescale| * sqrt(var_params * t^2 + t * sigma^2), in any order of the commutative operands and under shape wrappers."""
  import sympy
  from mmsa import sym
  try:
    x = _strip_shape(e)

    def leaf(n_):
      if isinstance(n_, ast.Call) and norm(n_.func) in ('np.abs', 'abs', 'np.absolute', 'np.fabs') and len(n_.args) == 1:
        return sympy.Abs(sym.to_sym(n_.args[0], leaf, POS))
      if isinstance(n_, ast.Call) and norm(n_.func) in ('np.sqrt', 'math.sqrt') and len(n_.args) == 1:
        return sympy.sqrt(sym.to_sym(n_.args[0], leaf, POS))
      if isinstance(n_, ast.Call) and norm(n_.func) in ('np.square',) and len(n_.args) == 1:
        return sym.to_sym(n_.args[0], leaf, POS) ** 2
      return None
    POS = ('one_to_t', 'var_params', 'self.pre_period_model.scale')
    got = sym.to_sym(x, leaf, POS)
    r, t, v, s2 = sym.symbol('rescale'), sym.symbol('one_to_t', True), sym.symbol('var_params', True), sym.symbol('self.pre_period_model.scale', True)
    want = sympy.Abs(r) * sympy.sqrt(v * t ** 2 + t * s2)
    return sympy.simplify(got ** 2 - want ** 2) == 0 and set(map(str, got.free_symbols)) <= {'rescale', 'one_to_t', 'var_params', 'self.pre_period_model.scale'} \
        and got.has(sympy.Abs)
  except Exception:
    return False


def distribution_rules(repo, rep, prefix):
  """R4 (scale sign) and R5 (variance shape) of TBR.causal_cumulative_distribution."""
  cls = repo.cls('tbr.TBR')
  f = cls.methods.get('causal_cumulative_distribution')
  if f is None:
    raise Undecided('causal_cumulative_distribution vanished')
  rep.fn(f)
  ctx = FuncCtx.of(f)
  g, rd = ctx.g, ctx.rd
  rets = [n for n in g.nodes if n.kind == 'return' and n.ast.value is not None]
  n_t = 0
  for r in rets:
    call = r.ast.value
    if not (isinstance(call, ast.Call) and norm(call.func) in ('sp.stats.t', 'scipy.stats.t', 'stats.t')):
      rep.undecided(prefix + 'R5/posterior-shape', 'return', 'not a frozen t distribution: %s' % norm(call)[:60], f.loc(call))
      continue
    n_t += 1
    df = au.arg(call, 0, 'df')
    loc, scale = au.kwarg(call, 'loc'), au.kwarg(call, 'scale')
    if any(k.arg is None for k in call.keywords) or any(isinstance(a_, ast.Starred) for a_ in call.args):
      rep.undecided(prefix + 'R5/posterior-shape', 'frozen t distribution', 'its arguments are passed through */** unpacking: %s' % norm(call)[:60], f.loc(call))
      continue
    dfx = rd.expand(r, df)[0] if df is not None else None
    dft = norm(dfx) if dfx is not None else ''
    v_, al_ = au.verdict_text(dft == 'self.pre_period_model.df_resid', dfx, DVOC) if dfx is not None else (False, [])
    rep.check3(v_, prefix + 'R5/posterior-shape', 'degrees of freedom = residual d.f. of the pre-period fit (n_pre - 2)', f.qualname,
               'df=%s' % dft, 'the t distribution uses df=%s instead of the residual degrees of freedom of the pre-period regression' % dft, f.loc(call),
               why_open='df=%s reads unresolved names (%s)' % (dft[:40], ', '.join(al_)))
    if scale is None or loc is None:
      rep.violation(prefix + 'R5/posterior-shape', f.qualname, norm(call)[:100], 'the posterior is built without loc/scale', f.loc(call))
      continue
    def bases(at, e, depth=6):
      """[(base expression, node, index text or None)]: the array(s) the argument is taken from, looking through
      `x = x[time]` re-bindings and names with several definitions."""
      if depth <= 0:
        return [(e, at, None)]
      if isinstance(e, ast.Subscript):
        return [(b, n_, norm(e.slice) if ix is None else ix) for b, n_, ix in bases(at, e.value, depth - 1)]
      if isinstance(e, ast.Name):
        ds = rd.defs_at(at, e.id)
        if ds and all(d.how == 'assign' and d.value is not None for d in ds) and (len(ds) > 1 or isinstance(next(iter(ds)).value, (ast.Subscript, ast.Name))):
          out = []
          for d in sorted(ds, key=lambda d_: d_.node.id):
            out += bases(d.node, d.value, depth - 1)
          return out
      return [(e, at, None)]
    sb, lb = bases(r, scale), bases(r, loc)
    s_idx = {ix for _, _, ix in sb}
    l_idx = {ix for _, _, ix in lb}
    if s_idx != l_idx:
      rep.violation(prefix + 'R5/posterior-shape', f.qualname, norm(call)[:100], 'loc and scale are taken at different time indices', f.loc(call))
    seen_b = set()
    for sbase, snode, _ in sb:
      key_ = norm(rd.expand(snode, sbase, keep=('rescale', 'one_to_t', 'var_params', 'causal_response'))[0])
      if key_ in seen_b:
        continue
      seen_b.add(key_)
      proved_ = nonneg(ctx, snode, sbase)
      if not proved_:
        # not proved non-negative: a recognised defect only when the rescale factor enters the scale with its sign (outside
        # abs / an even power); a scale assembled in a way the sign analysis does not follow (in-place *=, a cached
        # tuple, a helper) is not decided
        sx_ = rd.expand(snode, sbase, keep=('rescale',), depth=12)[0]
        par_ = {}
        for x_ in ast.walk(sx_):
          for ch_ in ast.iter_child_nodes(x_):
            par_[id(ch_)] = x_
        signed_ = False
        for x_ in ast.walk(sx_):
          if isinstance(x_, ast.Name) and x_.id == 'rescale':
            cur_, under_abs = x_, False
            while id(cur_) in par_:
              p_ = par_[id(cur_)]
              if isinstance(p_, ast.Call) and norm(p_.func) in ('abs', 'np.abs', 'np.absolute', 'np.fabs', 'math.fabs', 'numpy.abs'):
                under_abs = True
              if isinstance(p_, ast.BinOp) and isinstance(p_.op, ast.Pow) and au.const(p_.right)[0] and isinstance(au.const(p_.right)[1], int) and au.const(p_.right)[1] % 2 == 0:
                under_abs = True
              cur_ = p_
            if not under_abs:
              signed_ = True
        if not signed_:
          rep.undecided(prefix + 'R4/scale-sign', 'scale=%s' % norm(sx_)[:80], 'the scale is assembled in a form whose sign is not followed (no signed use of rescale is visible)', f.loc(call))
          continue
      rep.check(proved_, prefix + 'R4/scale-sign', 'the scale passed to scipy.stats.t is non-negative for every rescale factor', f.qualname,
                'scale=%s' % norm(rd.expand(snode, sbase, keep=('rescale',))[0])[:120],
                'the scale of the posterior `%s` can be negative (e.g. rescale < 0): scipy then returns NaN for every quantile and probability'
                % norm(rd.expand(snode, sbase, keep=('rescale',))[0])[:100], f.loc(call))
      st = key_
      ok_scale = re.fullmatch(r'(np\.abs|abs)\(rescale\) \* np\.sqrt\(var_params \* one_to_t \*\* 2 \+ one_to_t \* self\.pre_period_model\.scale\)\.flatten\(\)', st) is not None or \
          re.fullmatch(r'(np\.abs|abs)\(rescale\) \* np\.sqrt\(one_to_t \*\* 2 \* var_params \+ one_to_t \* self\.pre_period_model\.scale\)\.flatten\(\)', st) is not None
      sx_ = rd.expand(snode, sbase, keep=('rescale', 'one_to_t', 'var_params', 'causal_response'))[0]
      if not ok_scale:
        ok_scale = _scale_shape(sx_)
      v_, al_ = au.verdict_text(ok_scale, sx_, DVOC)
      rep.check3(v_, prefix + 'R5/posterior-shape', 'variance = t^2 * (parameter variance) + t * sigma^2, scaled by |rescale|', f.qualname, 'scale = ' + st[:160],
                 'the posterior scale `%s` is not |rescale| * sqrt(t^2 * Q(t) + t * sigma^2) (Kerman 2017, eq. 5)' % st[:140], f.loc(call),
                 why_open='the scale `%s` reads unresolved names (%s)' % (st[:60], ', '.join(al_)))
    seen_b = set()
    for lbase, lnode, _ in lb:
      lt = norm(rd.expand(lnode, lbase, keep=('rescale', 'causal_response'))[0])
      if lt in seen_b:
        continue
      seen_b.add(lt)
      lx = rd.expand(lnode, lbase, keep=('rescale', 'causal_response'))[0]
      okl = lt == 'rescale * np.array(np.cumsum(causal_response)).flatten()' or \
          re.fullmatch(r'rescale \* (np\.cumsum\(causal_response\)|causal_response\.cumsum\(\))', norm(_strip_shape(lx))) is not None
      v_, al_ = au.verdict_text(okl, lx, DVOC)
      rep.check3(v_, prefix + 'R5/posterior-shape', 'location = rescale * cumulative causal effect', f.qualname,
                 'loc = ' + lt[:120], 'the posterior location `%s` is not rescale * cumsum(causal effect)' % lt[:100], f.loc(call),
                 why_open='the location `%s` reads unresolved names (%s)' % (lt[:60], ', '.join(al_)))
  rep.floor('frozen t distributions returned', n_t, 1)
  # pieces: one_to_t, var_params (quadratic form of the cumulative mean regressor), causal_response
  def single(name):
    for n in g.nodes:
      if n.kind == 'stmt' and isinstance(n.ast, ast.Assign) and norm(n.ast.targets[0]) == name:
        yield n
  def core(e):
    """Strip wrappers that only change the array shape/type: np.array(X), X.reshape(..), X.flatten(), (X)."""
    while True:
      if isinstance(e, ast.Call) and norm(e.func) in ('np.array', 'numpy.array', 'np.asarray') and len(e.args) == 1 and not e.keywords:
        e = e.args[0]
      elif isinstance(e, ast.Call) and isinstance(e.func, ast.Attribute) and e.func.attr in ('reshape', 'flatten', 'ravel'):
        e = e.func.value
      else:
        return e

  def core_deep(e):
    e = core(dataflow.clone(e))
    return dataflow._map_children(e, core_deep) if isinstance(e, ast.AST) else e

  o = list(single('one_to_t'))
  if not o:
    rep.undecided(prefix + 'R5/posterior-shape', 't runs over 1..T', 'no local named one_to_t: the day counter is not in the recognised form', f.loc())
  else:
    ox = core(rd.expand(o[0], o[0].ast.value, keep=('len_test',))[0])
    o_txt = norm(ox)
    o_txt = re.sub(r', dtype=(float|np\.float64|int|np\.int64)\)', ')', o_txt)          # the element type does not change which days are counted
    v_, al_ = au.verdict_text(o_txt in ('np.arange(1, len_test + 1)', 'np.arange(1, 1 + len_test)', 'np.arange(len_test) + 1', '1 + np.arange(len_test)',
                                        'np.arange(1.0, len_test + 1)', 'np.arange(1.0, len_test + 1.0)'), ox, DVOC)
    rep.check3(v_, prefix + 'R5/posterior-shape', 't runs over 1..T', f.qualname,
               norm(o[0].ast)[:80], 'the day counter is `%s`, not 1..T' % norm(o[0].ast.value), f.loc(),
               why_open='the day counter `%s` reads unresolved names (%s)' % (o_txt[:60], ', '.join(al_)))
  # the per-day quadratic form m_t' V m_t: loop form  var_t = M[t,] @ V @ M[t,].T  or comprehension form  [r @ V @ r.T for r in M]
  quad = None     # (node, M expr, V expr)
  for n in g.nodes:
    if n.kind != 'stmt' or not isinstance(n.ast, ast.Assign):
      continue
    for sub in ast.walk(n.ast.value):
      if isinstance(sub, ast.BinOp) and isinstance(sub.op, ast.MatMult) and isinstance(sub.left, ast.BinOp) and isinstance(sub.left.op, ast.MatMult):
        left, mid, right = sub.left.left, sub.left.right, sub.right
        if not (isinstance(right, ast.Attribute) and right.attr == 'T' and norm(right.value) == norm(left)):
          continue
        M = None
        if isinstance(left, ast.Subscript):
          M = left.value          # M[t,]
        elif isinstance(left, ast.Name):
          gen = None
          cur, par = sub, getattr(sub, '_parent', None)
          while par is not None and not isinstance(par, ast.stmt):
            if isinstance(par, (ast.ListComp, ast.GeneratorExp)) and len(par.generators) == 1 and norm(par.generators[0].target) == left.id:
              gen = par.generators[0]
            cur, par = par, getattr(par, '_parent', None)
          if gen is not None:
            M = gen.iter
        if M is not None:
          quad = (n, M, mid)
  if quad is not None:
    qn, M, V = quad
    keepn = ('t', 'one_to_t', 'cntrl_mat')
    cm = rd.single_def(qn, 'cntrl_mat')
    cmx = rd.expand(cm.node, cm.value, keep=('periods',))[0] if cm is not None and cm.value is not None else None
    cmt = norm(cmx) if cmx is not None else ''
    v_, al_ = au.verdict_text(cmt == 'self._design_matrix(self._make_period_index(periods))', cmx, DVOC) if cmx is not None else (None, ['cntrl_mat'])
    rep.check3(v_, prefix + 'R5/posterior-shape', 'design rows are (1, control) of the analysed periods', f.qualname,
               'cntrl_mat = ' + cmt[:100], 'the design rows used for the parameter variance are `%s`' % cmt[:100], f.loc(),
               why_open='the design rows `%s` read unresolved names (%s)' % (cmt[:60], ', '.join(al_)))
    mx, vx_ = core_deep(rd.expand(qn, M, keep=keepn)[0]), core_deep(rd.expand(qn, V, keep=keepn)[0])
    mt = norm(mx)
    vt_ = norm(vx_)
    okq = mt in ('cntrl_mat.cumsum() / one_to_t', 'np.cumsum(cntrl_mat) / one_to_t', 'cntrl_mat.cumsum(0) / one_to_t', 'np.cumsum(cntrl_mat, 0) / one_to_t') \
        and vt_ == 'self.pre_period_model.cov_params()'
    al_ = au.aliens(mx, DVOC) + au.aliens(vx_, DVOC)
    rep.check3(True if okq else (None if al_ else False), prefix + 'R5/posterior-shape', 'parameter variance = m_t\' V m_t with m_t the running mean of the design rows and V the OLS covariance', f.qualname,
              'rows of %s in %s' % (mt[:100], vt_[:80]),
              'the parameter-variance term is the quadratic form of the rows of `%s` in `%s`, not of the running mean of the control design rows in the OLS covariance matrix' % (mt[:120], vt_[:80]),
              f.loc(qn.ast), why_open='the quadratic form reads unresolved names (%s)' % ', '.join(al_))
  else:
    rep.undecided(prefix + 'R5/posterior-shape', 'var_t', 'per-day quadratic form not found', f.loc())
  cr = list(single('causal_response'))
  if not cr:
    rep.undecided(prefix + 'R5/posterior-shape', 'the effect series is causal_effect(periods)', 'no local named causal_response: the effect series is not in the recognised form', f.loc())
  else:
    v_, al_ = au.verdict_text(norm(cr[0].ast.value) in ('self.causal_effect(periods)', 'self.causal_effect(periods=periods)'), cr[0].ast.value, DVOC)
    rep.check3(v_, prefix + 'R5/posterior-shape', 'the effect series is causal_effect(periods)', f.qualname,
               norm(cr[0].ast)[:80], 'the cumulative effect is not built from causal_effect(periods)', f.loc(),
               why_open='the effect series `%s` reads unresolved names (%s)' % (norm(cr[0].ast.value)[:60], ', '.join(al_)))
  ce = cls.methods.get('causal_effect')
  if ce is not None:
    rep.fn(ce)
    c2 = FuncCtx.of(ce)
    for n in c2.g.nodes:
      if n.kind == 'return' and n.ast.value is not None:
        tx = c2.rd.expand(n, n.ast.value, keep=('periods',))[0]
        t = norm(tx)
        ok = t == 'self._response_vector(self._make_period_index(periods)) - self.predict(self._design_matrix(self._make_period_index(periods)))'
        v_, al_ = au.verdict_text(ok, tx, DVOC)
        rep.check3(v_, prefix + 'R5/posterior-shape', 'causal effect = observed treatment - counterfactual prediction', ce.qualname, t[:160],
                   'causal_effect returns `%s`, not observed minus predicted' % t[:140], ce.loc(n.ast),
                   why_open='causal_effect returns `%s`, which reads unresolved names (%s)' % (t[:60], ', '.join(al_)))
  fm = cls.methods.get('_fit_pre_period_model')
  if fm is not None:
    rep.fn(fm)
    c3 = FuncCtx.of(fm)
    for n in c3.g.nodes:
      if n.kind == 'stmt' and isinstance(n.ast, ast.Assign) and norm(n.ast.targets[0]) == 'self.pre_period_model':
        tx = c3.rd.expand(n, n.ast.value)[0]
        t = norm(tx)
        pi = "self.analysis_data[self.df_names.period] == self.periods.pre"
        ok = t == 'sm.OLS(self._response_vector(%s).to_numpy(), self._design_matrix(%s).to_numpy()).fit()' % (pi, pi)
        v_, al_ = au.verdict_text(ok, tx, DVOC)
        rep.check3(v_, prefix + 'R5/posterior-shape', 'the model is the OLS of pre-period treatment on (1, control)', fm.qualname, t[:160],
                   'the pre-period model is `%s`' % t[:140], fm.loc(n.ast),
                   why_open='the pre-period model `%s` reads unresolved names (%s)' % (t[:60], ', '.join(al_)))


def summary_rules(repo, rep, prefix, level_iv=None):
  """R2 (one distribution) and R3 (quantile ordering) of TBR.summary."""
  cls = repo.cls('tbr.TBR')
  f = cls.methods.get('summary')
  if f is None:
    raise Undecided('TBR.summary vanished')
  rep.fn(f)
  ctx = FuncCtx.of(f)
  g, rd = ctx.g, ctx.rd
  dicts = [(n, n.ast.value) for n in g.nodes if n.kind == 'stmt' and isinstance(n.ast, ast.Assign) and isinstance(n.ast.value, ast.Dict)
           and any(au.const(k)[1] == 'estimate' for k in n.ast.value.keys if k is not None)]
  if len(dicts) != 1:
    rep.undecided(prefix + 'R2/one-distribution', 'TBR.summary', 'report dictionary not found', f.loc())
    return
  node, d = dicts[0]
  cols = {au.const(k)[1]: v for k, v in zip(d.keys, d.values)}
  # the report may be completed by item assignments `report['col'] = ...` after the display
  dvar = norm(node.ast.targets[0]) if isinstance(node.ast.targets[0], ast.Name) else None
  opaque_dict = any(k is None for k in d.keys)
  col_nodes = {c: node for c in cols}
  if dvar:
    for n_ in g.nodes:
      if n_.kind == 'stmt' and isinstance(n_.ast, ast.Assign):
        for t_ in n_.ast.targets:
          if isinstance(t_, ast.Subscript) and norm(t_.value) == dvar:
            ok_, k_ = au.const(t_.slice)
            if ok_ and isinstance(k_, str):
              cols.setdefault(k_, n_.ast.value)
              col_nodes.setdefault(k_, n_)
            else:
              opaque_dict = True
      for e_ in ctx.node_exprs(n_):
        for c_ in au.calls_in(e_):
          if isinstance(c_.func, ast.Attribute) and norm(c_.func.value) == dvar and c_.func.attr in ('update', 'setdefault'):
            opaque_dict = True
  dname = None
  vocab = {'ndates', 'alpha', 'pupper', 'threshold', 'level', 'dates_ones', 'rescale', 'tails'}
  for c in ('estimate', 'precision', 'lower', 'upper', 'scale', 'probability'):
    if c not in cols:
      if opaque_dict:
        rep.undecided(prefix + 'R2/one-distribution', 'column %s' % c, 'the report dictionary is completed in a form that is not followed (computed keys / update)', f.loc(d))
      else:
        rep.violation(prefix + 'R2/one-distribution', f.qualname, 'column %s missing' % c, 'the summary has no %s column' % c, f.loc(d))
      continue
    names = {x.id for x in ast.walk(cols[c]) if isinstance(x, ast.Name)} - {'np'} - vocab
    # the posterior object may be read through locals (estimate = delta.mean(); {'estimate': estimate}): follow plain
    # assignments until a local bound to a call is reached
    for _hop in range(3):
      nxt = set()
      for nm_ in names:
        d_ = rd.single_def(col_nodes.get(c, node), nm_)
        if d_ is not None and d_.how == 'assign' and d_.value is not None and not isinstance(d_.value, ast.Call):
          nxt |= {x.id for x in ast.walk(d_.value) if isinstance(x, ast.Name)} - {'np'} - vocab
        elif d_ is not None and d_.how == 'assign' and isinstance(d_.value, ast.Call) and isinstance(d_.value.func, ast.Attribute) \
            and isinstance(d_.value.func.value, ast.Name) and d_.value.func.value.id not in ('self', 'np', 'sp', 'stats') and d_.value.func.attr in ('mean', 'median', 'ppf', 'cdf', 'sf'):
          nxt.add(d_.value.func.value.id)          # estimate = delta.mean(): the object is delta
        else:
          nxt.add(nm_)
      if nxt == names:
        break
      names = nxt
    if len(names) == 1:
      dname = dname or names.copy().pop()
  for c in list(cols):
    if c in col_nodes and dname:
      cols[c] = rd.expand(col_nodes[c], cols[c], keep=tuple(vocab | {dname}))[0]
  if dname:
    dd = rd.single_def(node, dname)
    t = norm(rd.expand(dd.node, dd.value, keep=('rescale',))[0]) if dd is not None and dd.value is not None else ''
    okd = t in ('self.causal_cumulative_distribution(rescale=rescale)', 'self.causal_cumulative_distribution(periods=None, rescale=rescale)')
    v_, al_ = au.verdict_text(okd, dd.value if dd is not None and dd.value is not None else ast.Constant(value=None), vocab)
    if dd is None or dd.value is None:
      v_ = None
    rep.check3(v_, prefix + 'R2/one-distribution', 'the posterior object is causal_cumulative_distribution(rescale=rescale)',
               f.qualname, '%s = %s' % (dname, t[:80]), 'the summary posterior is `%s`: the rescale factor (or the distribution) is not the requested one' % t[:80], f.loc(),
               why_open='the posterior object `%s` is built as `%s`, which reads unresolved names (%s)' % (dname, t[:60], ', '.join(al_)))
    want = {
        'estimate': r'%s\.(mean|median)\(\)' % dname,
        'lower': r'%s\.ppf\(alpha\)(\.reshape\(ndates\))?' % dname,
        'upper': r'%s\.ppf\(pupper\)(\.reshape\(ndates\))?' % dname,
        'precision': r'np\.abs\(%s\.ppf\(alpha\) - %s\.ppf\(0\.5\)\)(\.reshape\(ndates\))?' % (dname, dname),
        'scale': r"%s\.kwds\['scale'\](\.reshape\(ndates\))?" % dname,
        'probability': r'(1(\.0)? - %s\.cdf\(threshold\)(\.reshape\(ndates\))?|%s\.sf\(threshold\)(\.reshape\(ndates\))?)' % (dname, dname),
    }
    for c, pat in want.items():
      if c in cols:
        t = norm(cols[c])
        t_core = norm(_strip_shape(cols[c]))        # reshape / flatten / asarray commute with the element-wise arithmetic of the columns
        v_, al_ = au.verdict_text(re.fullmatch(pat, t) is not None or re.fullmatch(pat, t_core) is not None, cols[c], vocab | {dname})
        rep.check3(v_, prefix + 'R2/one-distribution', 'column %s = %s' % (c, t[:60]), f.qualname, '%s: %s' % (c, t[:100]),
                   'summary column %s is `%s`, which is not the documented quantity (median / quantiles / |lower - median| / scale / P(effect > threshold)) of the posterior %s' % (c, t[:80], dname),
                   f.loc(cols[c]) if hasattr(cols[c], 'lineno') else f.loc(),
                   why_open='column %s is `%s`, which reads names the expansion did not resolve (%s)' % (c, t[:60], ', '.join(al_)))
  else:
    rep.undecided(prefix + 'R2/one-distribution', 'TBR.summary', 'no column of the report is a function of a single posterior object', f.loc(d))

  def sites(ctx_, rd_, reach):
    out = []
    for c, kind in (('lower', 'lower'), ('upper', 'upper')):
      if c in cols:
        for call in au.calls_in(cols[c]):
          if isinstance(call.func, ast.Attribute) and call.func.attr == 'ppf' and call.args:
            out.append((kind, call.args[0], node, 'summary column %s' % c))
    return out
  # level: guard `level < 0.0 or level > 1.0 -> raise` gives [0, 1]
  guard = any(n.kind == 'test' and re.search(r'level < 0(\.0)? or level > 1(\.0)?', norm(n.expr)) for n in g.nodes)
  liv = Iv(0.0, 1.0) if guard else Iv(-INF, INF)
  level_open = ''
  if not guard and level_iv is None:
    other_tests = [x_ for x_ in ast.walk(f.node) if isinstance(x_, ast.Compare) and any(isinstance(y_, ast.Name) and y_.id == 'level' for y_ in ast.walk(x_))]
    dl_ = au.delegations(repo, f)
    if other_tests:
      level_open = 'level is compared in `%s`, which is not the recognised guard' % norm(other_tests[0])[:50]
    elif dl_:
      level_open = 'the function hands its arguments to %s, which is not followed' % dl_[0][1]
  n = quantile_order(rep, f, prefix + 'R3/quantile-order', level_iv or liv, sites, level_open=level_open)
  rep.floor('quantile-order obligations of TBR.summary', n, 4)


def kwarg_subdict_rule(repo, rep, rule):
  """utils.kwarg_subdict forwards every keyword argument whose name carries the prefix, whatever its value
  (0 and False are legitimate group / period labels)."""
  f = repo.func('utils.kwarg_subdict')
  rep.fn(f)
  bad = []
  n = 0
  for sub in walk_no_nested(f.node):
    conds = []
    if isinstance(sub, (ast.DictComp, ast.ListComp, ast.SetComp, ast.GeneratorExp)):
      for gen in sub.generators:
        valnames = set()
        if isinstance(gen.target, ast.Tuple) and len(gen.target.elts) == 2 and norm(gen.iter).endswith('.items()'):
          valnames.add(norm(gen.target.elts[1]))
        for c in gen.ifs:
          conds.append((c, valnames))
    elif isinstance(sub, ast.If):
      conds.append((sub.test, set()))
    for c, valnames in conds:
      n += 1
      t = norm(c)
      uses_value = bool(re.search(r'kwargs\[\w+\]|kwargs\.get\(', t)) or any(re.search(r'\b%s\b' % re.escape(v), t) for v in valnames)
      if uses_value:
        bad.append(c)
  rep.check(not bad, rule, 'kwarg_subdict filters on the keyword name only (values such as 0 are forwarded)', f.qualname,
            '; '.join(norm(b)[:60] for b in bad), 'kwarg_subdict drops keyword arguments depending on their value (%s): a group or period label equal to 0 silently falls back to the default label'
            % '; '.join(norm(b)[:60] for b in bad), f.loc(bad[0]) if bad else f.loc())
  rets = [x for x in walk_no_nested(f.node) if isinstance(x, ast.Return) and x.value is not None]
  ok = len(rets) == 1 and isinstance(rets[0].value, (ast.DictComp, ast.Name, ast.Call))
  if len(rets) == 1 and isinstance(rets[0].value, ast.DictComp):
    v = norm(rets[0].value.value)
    # a private copy of the keyword table (named = dict(kwargs)) read under the key being forwarded is the keyword's value
    copies_ = {t_.id for a_ in walk_no_nested(f.node) if isinstance(a_, ast.Assign) and len(a_.targets) == 1 for t_ in a_.targets
               if isinstance(t_, ast.Name) and norm(a_.value) in ('dict(kwargs)', 'kwargs', 'kwargs.copy()', 'dict(**kwargs)', '{**kwargs}')}
    m_ = re.fullmatch(r'(\w+)\[\w+\]', v)
    if m_ and m_.group(1) in copies_:
      v = 'kwargs[%s' % v.split('[', 1)[1]
    rep.check(re.fullmatch(r'kwargs\[\w+\]|\w+', v) is not None, rule, 'kwarg_subdict forwards the value unchanged', f.qualname, v[:60],
              'kwarg_subdict forwards `%s` instead of the keyword\'s value' % v[:60], f.loc(rets[0]))
