"""Static facts about regular expressions used by the analysed code: the pattern text is constant-folded from the
source (string literals, +, %, str.format / f-strings over module-level string constants) and parsed with the standard
library's regex parser; nothing is matched or executed."""
import ast
try:
  import re._parser as _sre_parse      # Python >= 3.11
  import re._constants as _sre_const
except ImportError:                     # pragma: no cover
  import sre_parse as _sre_parse
  import sre_constants as _sre_const


def fold_string(e, module_assigns, depth=6):
  """The constant string denoted by expression `e`, or None."""
  if depth < 0 or e is None:
    return None
  if isinstance(e, ast.Constant):
    return e.value if isinstance(e.value, str) else None
  if isinstance(e, ast.Name):
    return fold_string(module_assigns.get(e.id), module_assigns, depth - 1)
  if isinstance(e, ast.BinOp) and isinstance(e.op, ast.Add):
    a, b = fold_string(e.left, module_assigns, depth - 1), fold_string(e.right, module_assigns, depth - 1)
    return a + b if a is not None and b is not None else None
  if isinstance(e, ast.JoinedStr):
    out = ''
    for v in e.values:
      if isinstance(v, ast.Constant):
        out += str(v.value)
      elif isinstance(v, ast.FormattedValue) and v.conversion == -1 and v.format_spec is None:
        s = fold_string(v.value, module_assigns, depth - 1)
        if s is None:
          return None
        out += s
      else:
        return None
    return out
  if isinstance(e, ast.Call) and isinstance(e.func, ast.Attribute) and e.func.attr == 'format':
    base = fold_string(e.func.value, module_assigns, depth - 1)
    if base is None:
      return None
    args = [fold_string(a, module_assigns, depth - 1) for a in e.args]
    kws = {k.arg: fold_string(k.value, module_assigns, depth - 1) for k in e.keywords if k.arg}
    if any(a is None for a in args) or any(v is None for v in kws.values()) or any(k.arg is None for k in e.keywords):
      return None
    try:
      return base.format(*args, **kws)
    except Exception:
      return None
  if isinstance(e, ast.BinOp) and isinstance(e.op, ast.Mod):
    base = fold_string(e.left, module_assigns, depth - 1)
    if base is None:
      return None
    r = e.right
    vals = [fold_string(x, module_assigns, depth - 1) for x in (r.elts if isinstance(r, ast.Tuple) else [r])]
    if any(v is None for v in vals):
      return None
    try:
      return base % tuple(vals)
    except Exception:
      return None
  return None


def compiled_pattern(e, module_assigns, depth=4):
  """Pattern text of an expression denoting a compiled regex (re.compile(P) directly or through a module constant)."""
  if depth < 0 or e is None:
    return None
  if isinstance(e, ast.Name):
    return compiled_pattern(module_assigns.get(e.id), module_assigns, depth - 1)
  if isinstance(e, ast.Call) and isinstance(e.func, ast.Attribute) and e.func.attr == 'compile' and e.args:
    return fold_string(e.args[0], module_assigns)
  return None


def _ends_anchored(items):
  """Every way through the sequence `items` ends with an end-of-string assertion."""
  items = list(items)
  while items:
    op, av = items[-1]
    if op is _sre_const.AT:
      if av in (_sre_const.AT_END_STRING, _sre_const.AT_END):
        return True
      items.pop()          # another zero-width assertion: look further left
      continue
    if op is _sre_const.SUBPATTERN:
      return _ends_anchored(av[3])
    if op is _sre_const.BRANCH:
      return all(_ends_anchored(alt) for alt in av[1])
    return False
  return False


def _starts_anchored(items):
  items = list(items)
  while items:
    op, av = items[0]
    if op is _sre_const.AT:
      if av in (_sre_const.AT_BEGINNING_STRING, _sre_const.AT_BEGINNING):
        return True
      items.pop(0)
      continue
    if op is _sre_const.SUBPATTERN:
      return _starts_anchored(av[3])
    if op is _sre_const.BRANCH:
      return all(_starts_anchored(alt) for alt in av[1])
    return False
  return False


def anchoring(pattern):
  """(start_anchored, end_anchored) of the pattern, or None if it does not parse."""
  try:
    parsed = _sre_parse.parse(pattern)
  except Exception:
    return None
  return _starts_anchored(parsed), _ends_anchored(parsed)


def whole_string(method, pattern):
  """Does `<compiled pattern>.<method>(s)` succeed only when the whole of s is consumed?  True / False / None (unknown)."""
  a = anchoring(pattern)
  if a is None:
    return None
  start, end = a
  if method == 'fullmatch':
    return True
  if method == 'match':
    return end
  if method == 'search':
    return start and end
  return None
