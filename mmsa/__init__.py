"""mmsa — static analysis of google/matched_markets against /verif/properties.jsonl.

Nothing in this package imports or executes matched_markets: every decision is
made from the syntax trees of /repo's current working tree.
"""
