"""Rule-outcome protocol, evidence files and known findings."""
import json
import os
import time

VERIF = os.path.dirname(os.path.dirname(os.path.abspath(__file__)))
EVIDENCE_DIR = os.path.join(VERIF, 'evidence')
KNOWN_FILE = os.path.join(VERIF, 'known_findings.json')

TRUSTED_BASE = [
    'CPython semantics of set/list/dict/tuple operators, comparisons and truthiness',
    'heapq (heappush, heappushpop, nlargest), itertools.combinations (all k-subsets, each once), copy.deepcopy',
    'pandas: pivot_table is label based with sorted axes; .loc[list] preserves the list order; a set is rejected as row indexer; date_range(freq="D") includes both ends',
    'NumPy: std is shift invariant and scale equivariant; NumPy scalar division does not raise',
    'scipy.stats.t.ppf is monotone in p and requires scale > 0',
    'the Python ast module parses the tree as CPython would compile it',
]


class Instance:

  def __init__(self, rule, subject, status, detail, loc, nontrivial, func=None, construct=None):
    self.rule = rule
    self.subject = subject
    self.status = status        # discharged | violation | undecided
    self.detail = detail
    self.loc = loc
    self.nontrivial = nontrivial
    self.func = func
    self.construct = construct

  def key(self, prop):
    # locals renamed for hygiene when a helper was inlined (`name__h12`) are the helper's own `name`
    import re as _re
    return (prop, self.rule, self.func or '', _re.sub(r'__h\d+\b', '', self.construct or self.subject))

  def as_dict(self):
    d = {'rule': self.rule, 'subject': self.subject, 'status': self.status, 'where': self.loc}
    if self.detail:
      d['detail'] = self.detail
    return d


class Report:

  def __init__(self, prop_id, tier, repo, seed=0):
    self.prop = prop_id
    self.tier = tier
    self.repo = repo
    self.seed = seed
    self.t0 = time.time()
    self.instances = []
    self.notes = []
    self.assumptions = []
    self.floors = []     # (what, measured, floor)
    self.analysed = {'functions': set(), 'paths': 0, 'call_sites': 0}
    self.selftest = None
    self.extra = {}

  # -- recording -------------------------------------------------------------
  def ok(self, rule, subject, detail='', loc='', nontrivial=True):
    self.instances.append(Instance(rule, subject, 'discharged', detail, loc, nontrivial))

  def violation(self, rule, func, construct, message, loc):
    """A recognised construct contradicts the rule. `func` is the qualified
    function name and `construct` the normalised source of the construct; the
    two key the finding (no line numbers)."""
    self.instances.append(Instance(rule, message, 'violation', message, loc, True, func, construct))

  def absent(self, f, rule, func, construct, message, loc, subject=None):
    """An absence-based contradiction ("f never does X"): a violation only when f hands nothing to repository code
    that is not followed (au.delegations); otherwise X may be done there and the obligation is not decided."""
    from mmsa import au as _au
    dl = _au.delegations(self.repo, f) if f is not None and hasattr(self.repo, 'resolve_dotted') else []
    if dl:
      self.undecided(rule, subject or construct, 'not found in %s itself, but the function hands work to %s, which is not followed: it may be done there' % (f.qualname, dl[0][1]), loc)
      return None
    self.violation(rule, func, construct, message, loc)
    return False

  def absent_in_class(self, cls, rule, func, construct, message, loc, subject=None):
    """"The class defines no method M": a violation only when nothing else can supply M (au.class_delegations)."""
    from mmsa import au as _au
    dl = _au.class_delegations(self.repo, cls)
    if dl:
      self.undecided(rule, subject or construct, 'not defined in the body of %s, but %s may supply it: not followed' % (cls.qualname, dl[0]), loc)
      return None
    self.violation(rule, func, construct, message, loc)
    return False

  def undecided(self, rule, subject, why, loc=''):
    self.instances.append(Instance(rule, subject, 'undecided', why, loc, True))

  def check3(self, verdict, rule, subject, func, construct, message, loc, why_open='', detail='', nontrivial=True):
    """Three-valued obligation: True discharged, False a recognised contradiction (violation), None not decided (the
    construct is not understood: `why_open` says what was left unresolved)."""
    if verdict is None:
      self.undecided(rule, subject, why_open or 'the construct is not in a form the rule understands', loc)
      return None
    return self.check(bool(verdict), rule, subject, func, construct, message, loc, detail, nontrivial)

  def check_term(self, ok, term, vocabulary, rule, subject, func, construct, message, loc, detail='', nontrivial=True, fields=None, want=None):
    """Pattern obligation on an expression (`term`: AST or source text).  ok -> discharged.  Otherwise a violation only
    when the term is a closed term over `vocabulary` (a recognised different computation); a term that still reads
    unresolved names (helpers, table entries, locals the expansion left open) is not decided."""
    if ok:
      return self.check(True, rule, subject, func, construct, message, loc, detail, nontrivial)
    import ast as _ast
    from mmsa import au as _au
    t = term
    if isinstance(t, str):
      try:
        t = _ast.parse(t, mode='eval').body
      except SyntaxError:
        t = None
    if t is None:
      self.undecided(rule, subject, 'the construct is missing or not an expression', loc)
      return None
    al = _au.aliens(t, vocabulary, fields=fields)
    if al:
      self.undecided(rule, subject, 'the term reads names the expansion did not resolve (%s): %s' % (', '.join(al[:4]), construct[:80]), loc)
      return None
    # the expected form(s) given: the same data in a different container (pd.Series(X.to_numpy()) for X.reset_index()...)
    # is not a different computation; whether the containers behave alike downstream is not decided here
    if want is not None:
      from mmsa.core import norm as _norm
      core_t = _norm(_au.data_core(t))
      for w in ([want] if isinstance(want, (str, _ast.AST)) else list(want)):
        try:
          w_ast = _ast.parse(w, mode='eval').body if isinstance(w, str) else w
        except SyntaxError:
          continue
        if _norm(_au.data_core(w_ast)) == core_t:
          self.undecided(rule, subject, 'the term `%s` holds the same data as the expected form in a different container: index alignment / dtype downstream are not followed' % _norm(t)[:80], loc)
          return None
    return self.check(False, rule, subject, func, construct, message, loc, detail, nontrivial)

  def check(self, cond, rule, subject, func, construct, message, loc, detail='', nontrivial=True):
    if cond:
      self.ok(rule, subject, detail, loc, nontrivial)
    else:
      self.violation(rule, func, construct, message, loc)
    return cond

  def floor(self, what, measured, floor):
    self.floors.append((what, measured, floor))

  def note(self, text):
    self.notes.append(text)

  def assume(self, text):
    if text not in self.assumptions:
      self.assumptions.append(text)

  def fn(self, f):
    self.analysed['functions'].add(f.qualname if hasattr(f, 'qualname') else str(f))

  # -- finishing -------------------------------------------------------------
  def finish(self, level_explanation, rule_text, write=True, only_key=None):
    known = load_known()
    viol = [i for i in self.instances if i.status == 'violation']
    und = [i for i in self.instances if i.status == 'undecided']
    new, listed = [], []
    for v in viol:
      k = v.key(self.prop)
      if only_key is not None and list(k[1:]) != list(only_key):
        continue
      if _match_known(known, k):
        listed.append(v)
      else:
        new.append(v)
    floor_fail = [(w, m, f) for (w, m, f) in self.floors if m < f]
    lines = []
    replay_paths = []
    seen_known = set()
    for v in listed:
      k = v.key(self.prop)
      if k in seen_known:
        continue
      seen_known.add(k)
      lines.append('KNOWN-FINDING: property=%s %s [%s %s] at %s' % (self.prop, v.detail, v.rule, v.func, v.loc))
    if write:
      os.makedirs(os.path.join(EVIDENCE_DIR, 'replay'), exist_ok=True)
    seen_new = set()
    for n, v in enumerate(new):
      k = v.key(self.prop)
      if k in seen_new:
        continue
      seen_new.add(k)
      rp = os.path.join(EVIDENCE_DIR, 'replay', '%s-%s-%d.json' % (self.prop, v.rule.replace('/', '_'), n))
      if write:
        with open(rp, 'w') as f:
          json.dump({'property': self.prop, 'rule': v.rule, 'function': v.func, 'construct': v.construct,
                     'message': v.detail, 'where': v.loc, 'tier': self.tier,
                     'replay': 'python3-vt -m mmsa.check %s --replay %s' % (self.prop, rp)}, f, indent=1)
      replay_paths.append(rp)
      lines.append('  rule %s in %s at %s: %s' % (v.rule, v.func, v.loc, v.detail))
      lines.append('  construct: %s' % v.construct)
      lines.append('VIOLATION property=%s replay=%s' % (self.prop, rp))
    for u in und:
      lines.append('UNDECIDED property=%s rule=%s %s: %s (%s)' % (self.prop, u.rule, u.subject, u.detail, u.loc))
    for w, m, f in floor_fail:
      lines.append('ANALYSIS-ERROR property=%s instance floor not met: %s measured %d < %d' % (self.prop, w, m, f))
    if self.selftest and self.selftest.get('failed'):
      for s in self.selftest['failed']:
        lines.append('ANALYSIS-ERROR property=%s self-validation failed: %s' % (self.prop, s))
    if new:
      code = 1
    elif und or floor_fail or (self.selftest and self.selftest.get('failed')):
      code = 2
    else:
      code = 0
    if write and only_key is None:
      self._write_evidence(level_explanation, rule_text, len(new), listed, und)
    disc = sum(1 for i in self.instances if i.status == 'discharged')
    lines.append('%s %s: %d obligations, %d discharged, %d violation(s) (%d new, %d known), %d undecided; %.2fs'
                 % (self.prop, self.tier, len(self.instances), disc, len(viol), len(seen_new), len(seen_known), len(und),
                    time.time() - self.t0))
    return code, lines

  def _write_evidence(self, explanation, rule_text, n_new, listed, und):
    os.makedirs(EVIDENCE_DIR, exist_ok=True)
    from mmsa import cfg as _cfg
    cfg_stats = dict(_cfg.STATS)
    for q_ in self.analysed['functions']:
      self.repo.consulted.add(q_.split('.')[0])
    inst = self.instances
    disc = [i for i in inst if i.status == 'discharged']
    distinct = {(i.rule, i.subject) for i in inst if i.nontrivial}
    samples = [i.as_dict() for i in inst[:60]]
    cov = {
        'explanation': explanation,
        'obligations': len(inst),
        'discharged': len(disc),
        'evaluations': len(inst),
        'distinct_nontrivial': len(distinct),
        'rule': rule_text,
        'samples': samples,
        'checker_cmd': 'python3-vt -m mmsa.check %s --tier %s' % (self.prop, self.tier),
        'trusted_base': TRUSTED_BASE,
        'exhaustive': False,
        'rules': sorted({i.rule for i in inst}),
        'per_rule': {r: {'obligations': sum(1 for i in inst if i.rule == r),
                         'discharged': sum(1 for i in inst if i.rule == r and i.status == 'discharged')}
                     for r in sorted({i.rule for i in inst})},
        'functions_analysed': sorted(self.analysed['functions']),
        'paths_analysed': self.analysed['paths'] + cfg_stats.get('paths_enumerated', 0),
        'cfg_statistics': cfg_stats,
        'call_sites_analysed': self.analysed['call_sites'],
        'instance_floors': [{'what': w, 'measured': m, 'floor': f} for w, m, f in self.floors],
        'modules': self.repo.digests(),
        'known_findings_reported': [i.detail for i in listed],
        'undecided': [i.as_dict() for i in und],
        'notes': self.notes,
        'normalisation': {
            'call_sites_brought_to_canonical_argument_form': getattr(self.repo, 'canonicalised_calls', 0),
            'helpers_inlined_into_anchors': getattr(self.repo, 'flattened', {}),
            'lowered_or_rewritten_functions': getattr(self.repo, 'lowered', []),
            'module_level_forms': {m_.name: {k_: v_ for k_, v_ in (('decorators_expanded', getattr(m_, 'decorators_expanded', None)),
                                                                     ('branch_defined_closures_merged', getattr(m_, 'branch_defs_merged', None)),
                                                                     ('log_only_statements_dropped', getattr(m_, 'logging_dropped', None)),
                                                                     ('local_annotations_stripped', getattr(m_, 'local_annotations', None))) if v_}
                                   for m_ in getattr(self.repo, 'modules', {}).values()
                                   if getattr(m_, 'decorators_expanded', None) or getattr(m_, 'branch_defs_merged', None) or getattr(m_, 'logging_dropped', None)
                                   or getattr(m_, 'local_annotations', None)},
            'inherited_members_flattened': len(getattr(self.repo, 'inherited', []) or []),
            'enum_values_folded': getattr(self.repo, 'enum_values', 0),
            'copies_of_value_fields_removed': getattr(self.repo, 'value_copies', 0),
            'rule': 'functions absent from mmsa/pinned_names.json are inlined into their callers; calls to repository callables use positional-first arguments; iteration forms are brought to the form of the pinned code (DESIGN 9.1)',
        },
    }
    cov.update(self.extra)
    if self.selftest is not None:
      cov['self_validation'] = self.selftest
    ev = {
        'property_id': self.prop,
        'tier': self.tier,
        'seed': self.seed,
        'level': 'other',
        'coverage': cov,
        'assumptions': self.assumptions,
        'wall_s': round(time.time() - self.t0, 3),
        'violations': n_new,
    }
    with open(os.path.join(EVIDENCE_DIR, '%s.json' % self.prop), 'w') as f:
      json.dump(ev, f, indent=1, sort_keys=False, default=str)


def load_known():
  if not os.path.exists(KNOWN_FILE):
    return []
  with open(KNOWN_FILE) as f:
    data = json.load(f)
  return data.get('known', [])


def _match_known(known, key):
  prop, rule, func, construct = key
  for k in known:
    if k.get('property') == prop and k.get('rule') == rule and k.get('function') == func \
        and ' '.join(k.get('construct', '').split()) == ' '.join(construct.split()):
      return True
  return False
