"""Canonical forms of expressions, so that equivalent spellings compare equal:
  * calls to functions/classes defined in the repository take their arguments positionally in signature order as far as
    they are given contiguously from the left (f(a=1, b=2) == f(1, b=2) == f(1, 2)); remaining keywords are sorted in
    signature order;
  * np.sum(x, ...) is x.sum(...);
  * a comparison with the constant on the left is flipped (0 < x  ->  x > 0).
Only the callee's *name* is used to find the signature; when two definitions of one name disagree the call is left alone.
"""
import ast

from mmsa import dataflow
from mmsa.core import norm

_FLIP = {ast.Lt: ast.Gt, ast.Gt: ast.Lt, ast.LtE: ast.GtE, ast.GtE: ast.LtE, ast.Eq: ast.Eq, ast.NotEq: ast.NotEq}
_NP_METHODS = {'sum', 'cumsum'}
# leading parameters of a few library callables the rules look at (only as many as the rules read positionally)
LIB_SIGS = {
    'rvs': ['size'], 'percentile': ['a', 'q'], 'quantile': ['a', 'q'], 'nanpercentile': ['a', 'q'], 'ppf': ['q'], 'cdf': ['x'], 'sf': ['x'],
    'comb': ['N', 'k'], 'combinations': ['iterable', 'r'], 'date_range': ['start', 'end'], 'isin': ['values'], 'Timestamp': ['ts_input'],
    'deepcopy': ['x'], 'groupby': ['by'], 'insert': ['loc', 'column', 'value'], 'std': ['a'], 'var': ['a'],
    'OLS': ['endog', 'exog'], 'pivot_table': ['values', 'index', 'columns'], 'linregress': ['x', 'y'],
    'between': ['left', 'right'], 'diff': ['a'], 'sqrt': ['x'], 'log10': ['x'], 'floor': ['x'], 'heappush': ['heap', 'item'], 'heappushpop': ['heap', 'item'],
    'nlargest': ['n', 'iterable'], 'round': ['number', 'ndigits'], 'pearsonr': ['x', 'y'], 'symmetric_difference': ['other'], 'isdisjoint': ['other'],
    'issubset': ['other'], 'issuperset': ['other'], 'sort_values': ['by'], 'corrcoef': ['x', 'y'],
}


class Canon:

  def __init__(self, repo):
    sigs = {}

    def add(name, params):
      sigs.setdefault(name, set()).add(tuple(params))
    for f in repo.functions.values():
      a = f.node.args
      if a.vararg or a.kwarg:
        add(f.name, ('*',))
        continue
      ps = [x.arg for x in a.posonlyargs + a.args]
      if f.kind in ('method', 'getter', 'setter', 'classmethod') and ps:
        ps = ps[1:]
      if f.name == '__init__' and f.cls is not None:
        add(f.cls.name, ps)
      elif not f.name.startswith('__'):
        add(f.name, ps)
      for g in f.nested.values():
        b = g.node.args
        if not (b.vararg or b.kwarg):
          add(g.name, [x.arg for x in b.posonlyargs + b.args])
    for c in repo.classes.values():
      if '__init__' not in c.methods and c.field_order:
        add(c.name, c.field_order)
    for m in repo.modules.values():
      for name, v in m.assigns.items():
        if isinstance(v, ast.Call) and norm(v.func).endswith('namedtuple') and len(v.args) == 2:
          flds = v.args[1]
          if isinstance(flds, (ast.List, ast.Tuple)) and all(isinstance(x, ast.Constant) for x in flds.elts):
            add(name, [x.value for x in flds.elts])
          elif isinstance(flds, ast.Constant) and isinstance(flds.value, str):
            add(name, flds.value.replace(',', ' ').split())
    self.sigs = {k: list(next(iter(v))) for k, v in sigs.items() if len(v) == 1 and next(iter(v)) != ('*',)}
    self.multi = {k: [list(x) for x in sorted(v)] for k, v in sigs.items() if len(v) > 1}

  def sig_for(self, name, call):
    """The signature for a call by name; with several definitions of the name, the only one the call fits."""
    if name in self.sigs:
      return self.sigs[name]
    if name in LIB_SIGS and name not in self.multi:
      lib = LIB_SIGS[name]
      # library callable: only the leading parameters are known; other keywords stay where they are
      return lib + [k.arg for k in call.keywords if k.arg not in lib]
    fit = [s for s in self.multi.get(name, ()) if s != ['*'] and len(call.args) <= len(s) and all(k.arg in s for k in call.keywords)
           and len(call.args) + len(call.keywords) <= len(s)]
    if len(fit) == 1 and call.keywords:
      return fit[0]
    return None

  def bound(self, call):
    """{parameter name: argument expression} of a call to a repository-defined callable (keywords only when the
    signature is unknown)."""
    fn = call.func
    name = fn.attr if isinstance(fn, ast.Attribute) else fn.id if isinstance(fn, ast.Name) else None
    out = {k.arg: k.value for k in call.keywords if k.arg is not None}
    sig = self.sig_for(name, call) if name else None
    if sig is None and name in self.multi:
      fit = [s for s in self.multi[name] if s != ['*'] and len(call.args) <= len(s) and all(k in s for k in out)]
      # positional arguments: use the common prefix of the fitting signatures
      if fit and all(s[:len(call.args)] == fit[0][:len(call.args)] for s in fit):
        sig = fit[0]
    if sig is not None:
      for i, a in enumerate(call.args):
        if i < len(sig) and not isinstance(a, ast.Starred):
          out[sig[i]] = a
    return out

  def expr(self, e):
    return self._t(dataflow.clone(e))

  def text(self, e):
    return norm(self.expr(e))

  def ctext(self, source):
    """Canonical text of an expression given as source text (for expected forms written in a rule table)."""
    return self.text(ast.parse(source, mode='eval').body)

  def _t(self, e):
    if not isinstance(e, ast.AST):
      return e
    e = dataflow._map_children(e, self._t)
    if isinstance(e, ast.Call) and any(k.arg is None for k in e.keywords):
      # f(**dict(k=v)) / f(**{'k': v}) after a local naming the keyword table was expanded
      kws = []
      for k in e.keywords:
        v = k.value
        if k.arg is None and isinstance(v, ast.Call) and isinstance(v.func, ast.Name) and v.func.id == 'dict' and not v.args and all(kk.arg is not None for kk in v.keywords):
          kws += list(v.keywords)
        elif k.arg is None and isinstance(v, ast.Dict) and v.keys and all(isinstance(x, ast.Constant) and isinstance(x.value, str) and x.value.isidentifier() for x in v.keys):
          kws += [ast.keyword(arg=kk.value, value=vv) for kk, vv in zip(v.keys, v.values)]
        else:
          kws.append(k)
      e.keywords = kws
    if isinstance(e, ast.Call):
      fn = e.func
      name = fn.attr if isinstance(fn, ast.Attribute) else fn.id if isinstance(fn, ast.Name) else None
      if isinstance(fn, ast.Attribute) and isinstance(fn.value, ast.Name) and fn.value.id in ('np', 'numpy') \
          and fn.attr in _NP_METHODS and e.args and not isinstance(e.args[0], ast.Starred):
        return ast.Call(func=ast.Attribute(value=e.args[0], attr=fn.attr, ctx=ast.Load()), args=e.args[1:], keywords=e.keywords)
      sig = self.sig_for(name, e) if name else None
      if sig and not any(isinstance(a, ast.Starred) for a in e.args) and not any(k.arg is None for k in e.keywords) \
          and len(e.args) <= len(sig) and all(k.arg in sig for k in e.keywords):
        kw = {k.arg: k.value for k in e.keywords}
        args = list(e.args)
        lib_lead = len(LIB_SIGS[name]) if (name in LIB_SIGS and name not in self.sigs and name not in self.multi) else None
        while len(args) < len(sig) and sig[len(args)] in kw and (lib_lead is None or len(args) < lib_lead):
          args.append(kw.pop(sig[len(args)]))
        e.args = args
        e.keywords = [ast.keyword(arg=p, value=kw[p]) for p in sig if p in kw]
    elif isinstance(e, ast.Compare) and len(e.ops) == 1 and isinstance(e.left, ast.Constant) \
        and not isinstance(e.comparators[0], ast.Constant) and type(e.ops[0]) in _FLIP:
      return ast.Compare(left=e.comparators[0], ops=[_FLIP[type(e.ops[0])]()], comparators=[e.left])
    return e


def canonicalise_repo(repo):
  """In place: every call to a repository-defined callable takes its arguments in canonical (positional-first) form.
  Returns the number of call sites rewritten."""
  cn = Canon(repo)
  n = 0
  for m in repo.modules.values():
    for node in ast.walk(m.tree):
      if not isinstance(node, ast.Call):
        continue
      # f(*(a, b)) is f(a, b);  f(**{'k': v}) is f(k=v)
      if any(isinstance(a, ast.Starred) and isinstance(a.value, (ast.Tuple, ast.List)) and not any(isinstance(x, ast.Starred) for x in a.value.elts)
             for a in node.args):
        flat = []
        for a in node.args:
          if isinstance(a, ast.Starred) and isinstance(a.value, (ast.Tuple, ast.List)) and not any(isinstance(x, ast.Starred) for x in a.value.elts):
            flat += a.value.elts
          else:
            flat.append(a)
        node.args = flat
        for a in flat:
          a._parent = node
        n += 1
      # f(**dict(k=v)) is f(k=v)
      if any(k.arg is None and isinstance(k.value, ast.Call) and isinstance(k.value.func, ast.Name) and k.value.func.id == 'dict' and not k.value.args
             and all(kk.arg is not None for kk in k.value.keywords) for k in node.keywords):
        kws = []
        for k in node.keywords:
          if k.arg is None and isinstance(k.value, ast.Call) and isinstance(k.value.func, ast.Name) and k.value.func.id == 'dict' and not k.value.args \
              and all(kk.arg is not None for kk in k.value.keywords):
            for kk in k.value.keywords:
              kk._parent = node
              kws.append(kk)
          else:
            kws.append(k)
        node.keywords = kws
        n += 1
      if any(k.arg is None and isinstance(k.value, ast.Dict) and k.value.keys and all(isinstance(x, ast.Constant) and isinstance(x.value, str) and x.value.isidentifier()
                                                                                     for x in k.value.keys) for k in node.keywords):
        kws = []
        for k in node.keywords:
          if k.arg is None and isinstance(k.value, ast.Dict) and k.value.keys and all(isinstance(x, ast.Constant) and isinstance(x.value, str) and x.value.isidentifier()
                                                                                     for x in k.value.keys):
            for kk, vv in zip(k.value.keys, k.value.values):
              nk = ast.keyword(arg=kk.value, value=vv)
              ast.copy_location(nk, vv)
              nk._parent = node
              vv._parent = nk
              kws.append(nk)
          else:
            kws.append(k)
        node.keywords = kws
        n += 1
      for k in node.keywords:
        # pandas axis names: axis='columns' is axis=1, axis='index'/'rows' is axis=0
        if k.arg == 'axis' and isinstance(k.value, ast.Constant) and k.value.value in ('columns', 'index', 'rows'):
          k.value = ast.copy_location(ast.Constant(value=1 if k.value.value == 'columns' else 0), k.value)
          k.value._parent = k
          n += 1
      fn = node.func
      name = fn.attr if isinstance(fn, ast.Attribute) else fn.id if isinstance(fn, ast.Name) else None
      sig = cn.sig_for(name, node) if name and node.keywords else None
      if not sig or not node.keywords:
        continue
      if any(isinstance(a, ast.Starred) for a in node.args) or any(k.arg is None for k in node.keywords) \
          or len(node.args) > len(sig) or not all(k.arg in sig for k in node.keywords):
        continue
      kw = {k.arg: k for k in node.keywords}
      args = list(node.args)
      moved = False
      lib_lead = len(LIB_SIGS[name]) if (name in LIB_SIGS and name not in cn.sigs and name not in cn.multi) else None
      while len(args) < len(sig) and sig[len(args)] in kw and (lib_lead is None or len(args) < lib_lead):
        args.append(kw.pop(sig[len(args)]).value)
        moved = True
      order = [kw[p] for p in sig if p in kw]
      if moved or order != node.keywords:
        node.args = args
        node.keywords = order
        for a in args:
          a._parent = node
        n += 1
  _cache[id(repo)] = cn
  return n


_cache = {}


def of(repo):
  if id(repo) not in _cache:
    _cache.clear()
    _cache[id(repo)] = Canon(repo)
  return _cache[id(repo)]


def hoist_walrus_repo(repo):
  """In place:  if (n := E) > 0: ...   ->   n = E; if n > 0: ...     (assignment expressions in the test of an `if`,
  the value of an assignment / return / expression statement; not under the right operand of `and`/`or`, a conditional
  expression, a lambda or a comprehension, where the evaluation is conditional or repeated; `while` tests stay).
  Returns the number of assignment expressions hoisted."""
  count = [0]

  def collect(e, out):
    """NamedExpr nodes of e that are evaluated exactly once whenever e is evaluated, in evaluation order."""
    if isinstance(e, (ast.Lambda, ast.GeneratorExp, ast.ListComp, ast.SetComp, ast.DictComp)):
      return
    if isinstance(e, ast.BoolOp):
      collect(e.values[0], out)
      return
    if isinstance(e, ast.IfExp):
      collect(e.test, out)
      return
    if isinstance(e, ast.NamedExpr):
      collect(e.value, out)
      out.append(e)
      return
    for ch in ast.iter_child_nodes(e):
      collect(ch, out)

  def replace(root, targets):
    ids = {id(t): t for t in targets}

    def sub(x):
      if id(x) in ids:
        return ast.copy_location(ast.Name(id=ids[id(x)].target.id, ctx=ast.Load()), x)
      for fld, val in list(ast.iter_fields(x)):
        if isinstance(val, ast.AST):
          setattr(x, fld, sub(val))
        elif isinstance(val, list):
          setattr(x, fld, [sub(v) if isinstance(v, ast.AST) else v for v in val])
      return x
    return sub(root)

  def block(stmts):
    out = []
    for st in stmts:
      if isinstance(st, (ast.FunctionDef, ast.AsyncFunctionDef, ast.ClassDef)):
        for fld in ('body',):
          setattr(st, fld, block(getattr(st, fld)))
        out.append(st)
        continue
      for fld in ('body', 'orelse', 'finalbody'):
        if hasattr(st, fld) and isinstance(getattr(st, fld), list):
          setattr(st, fld, block(getattr(st, fld)))
      if isinstance(st, ast.Try):
        for hd in st.handlers:
          hd.body = block(hd.body)
      slot = None
      if isinstance(st, ast.If):
        slot = 'test'
      elif isinstance(st, (ast.Assign, ast.AugAssign, ast.AnnAssign, ast.Return, ast.Expr)) and getattr(st, 'value', None) is not None:
        slot = 'value'
      if slot is not None:
        found = []
        collect(getattr(st, slot), found)
        found = [w for w in found if isinstance(w.target, ast.Name)]
        if found:
          for w in found:
            a = ast.Assign(targets=[ast.Name(id=w.target.id, ctx=ast.Store())], value=w.value)
            ast.copy_location(a, w)
            ast.fix_missing_locations(a)
            a.end_lineno = getattr(w, 'end_lineno', a.lineno)
            out.append(a)
          # inner walruses were moved with their enclosing value; replace the outermost occurrences in the statement
          setattr(st, slot, replace(getattr(st, slot), found))
          # a hoisted value may itself contain a hoisted inner walrus: replace there too
          for a in out[-len(found) - 0:]:
            if isinstance(a, ast.Assign):
              a.value = replace(a.value, [w for w in found if w.value is not a.value])
          count[0] += len(found)
          if isinstance(st, ast.Expr) and isinstance(st.value, ast.Name):
            continue          # `(n := E)` alone as a statement: the assignment is all there was
      out.append(st)
    return out

  for m in repo.modules.values():
    before = count[0]
    m.tree.body = block(m.tree.body)
    if count[0] != before:
      ast.fix_missing_locations(m.tree)
      for n_ in ast.walk(m.tree):
        for ch in ast.iter_child_nodes(n_):
          ch._parent = n_
  return count[0]
