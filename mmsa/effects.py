"""Write effects of a function: attribute/subscript stores and mutator calls,
with the receiver expanded through local aliases (reaching definitions)."""
import ast

from mmsa import au, cfg as cfgmod, dataflow
from mmsa.core import norm, walk_no_nested

MUTATOR_METHODS = {
    'append', 'extend', 'insert', 'pop', 'remove', 'clear', 'sort', 'reverse', 'update', 'setdefault', 'popitem',
    'add', 'discard', 'difference_update', 'intersection_update', 'symmetric_difference_update',
    'push', '__setattr__', '__setitem__', '__delattr__',
}
PANDAS_INPLACE = {'drop', 'reset_index', 'set_index', 'sort_values', 'sort_index', 'fillna', 'rename', 'replace', 'dropna',
                  'drop_duplicates', 'clip', 'mask', 'where', 'interpolate', 'ffill', 'bfill', 'eval', 'query'}


class Effect:
  __slots__ = ('kind', 'node', 'stmt', 'target', 'target_text', 'expanded', 'root', 'value', 'attr', 'recv_ast')

  def __repr__(self):
    return '<Effect %s %s>' % (self.kind, self.expanded)


def root_name(e):
  while True:
    if isinstance(e, ast.Attribute):
      e = e.value
    elif isinstance(e, ast.Subscript):
      e = e.value
    elif isinstance(e, ast.Call):
      e = e.func
    else:
      break
  return e.id if isinstance(e, ast.Name) else None


def effects_of(func_node, g=None, rd=None, keep=()):
  """List of Effect for one function (nested functions excluded)."""
  g = g or cfgmod.CFG(func_node)
  rd = rd or dataflow.Reaching(g)
  out = []

  def add(kind, n, st, target, value=None, attr=None):
    e = Effect()
    e.kind, e.node, e.stmt, e.target, e.value, e.attr = kind, n, st, target, value, attr
    e.target_text = norm(target)
    e.expanded = norm(rd.expand(n, target, keep=keep, aliases=True)[0])
    e.root = root_name(rd.expand(n, target, keep=keep, aliases=True)[0])
    out.append(e)

  for n in g.nodes:
    sts = []
    if n.kind in ('stmt', 'return', 'raisestmt') and n.ast is not None and not isinstance(n.ast, (ast.FunctionDef, ast.AsyncFunctionDef, ast.ClassDef)):
      sts = [n.ast]
    elif n.kind == 'test':
      sts = [n.expr]
    elif n.kind == 'for':
      sts = [n.ast.iter]
      for t in _flat(n.ast.target):
        if isinstance(t, (ast.Attribute, ast.Subscript)):
          add('store', n, n.ast, t)
    elif n.kind == 'with':
      sts = [i.context_expr for i in n.ast.items]
    for st in sts:
      if isinstance(st, ast.Assign):
        for t0 in st.targets:
          for t in _flat(t0):
            if isinstance(t, ast.Attribute):
              add('attr-store', n, st, t, st.value, t.attr)
            elif isinstance(t, ast.Subscript):
              add('item-store', n, st, t, st.value)
      elif isinstance(st, ast.AnnAssign) and st.value is not None:
        if isinstance(st.target, ast.Attribute):
          add('attr-store', n, st, st.target, st.value, st.target.attr)
        elif isinstance(st.target, ast.Subscript):
          add('item-store', n, st, st.target, st.value)
      elif isinstance(st, ast.AugAssign):
        if isinstance(st.target, ast.Attribute):
          add('attr-store', n, st, st.target, None, st.target.attr)
        elif isinstance(st.target, ast.Subscript):
          add('item-store', n, st, st.target)
        elif isinstance(st.target, ast.Name):
          # x += [..] mutates lists in place
          add('aug-name', n, st, st.target)
      elif isinstance(st, ast.Delete):
        for t in st.targets:
          if isinstance(t, (ast.Attribute, ast.Subscript)):
            add('delete', n, st, t)
      for call in au.calls_in(st):
        f = call.func
        if isinstance(f, ast.Attribute):
          if f.attr in MUTATOR_METHODS:
            add('mutator-call', n, call, f.value, None, f.attr)
          elif f.attr in PANDAS_INPLACE and au.kwarg(call, 'inplace') is not None and au.is_const(au.kwarg(call, 'inplace'), True):
            add('mutator-call', n, call, f.value, None, f.attr)
        elif isinstance(f, ast.Name) and f.id in ('setattr', 'delattr') and call.args:
          add('mutator-call', n, call, call.args[0], None, f.id)
        if isinstance(f, ast.Attribute) and norm(f) in ('object.__setattr__',) and call.args:
          add('mutator-call', n, call, call.args[0], None, 'object.__setattr__')
        ln = norm(f)
        if ln in ('heapq.heappush', 'heapq.heappop', 'heapq.heappushpop', 'heapq.heapreplace', 'heapq.heapify', 'random.shuffle') and call.args:
          add('mutator-call', n, call, call.args[0], None, ln)
  return out


def _flat(t):
  if isinstance(t, (ast.Tuple, ast.List)):
    r = []
    for e in t.elts:
      r += _flat(e)
    return r
  if isinstance(t, ast.Starred):
    return _flat(t.value)
  return [t]
