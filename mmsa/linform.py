"""Integer linear forms of comparison tests (static; nothing is evaluated beyond constant folding).

linear(e)        -> (coeffs: dict atom_text -> int, const: int) or None
canonical(e, t)  -> list of (coeffs, const) meaning "sum(coeff*atom) + const <= 0" for the test `e` having truth `t`,
                    valid over the integers (a < 0  ==  a + 1 <= 0); None when the test is not an integer-linear comparison.
Atoms are the normalised texts of names, attribute chains, subscripts and calls (len(x), ...)."""
import ast

from mmsa.core import norm


def linear(e, consts=None):
  consts = consts or {}
  if isinstance(e, ast.Constant) and isinstance(e.value, int) and not isinstance(e.value, bool):
    return {}, e.value
  if isinstance(e, ast.UnaryOp) and isinstance(e.op, ast.USub):
    r = linear(e.operand, consts)
    return None if r is None else ({k: -v for k, v in r[0].items()}, -r[1])
  if isinstance(e, ast.UnaryOp) and isinstance(e.op, ast.UAdd):
    return linear(e.operand, consts)
  if isinstance(e, ast.BinOp) and isinstance(e.op, (ast.Add, ast.Sub)):
    a, b = linear(e.left, consts), linear(e.right, consts)
    if a is None or b is None:
      return None
    s = 1 if isinstance(e.op, ast.Add) else -1
    out = dict(a[0])
    for k, v in b[0].items():
      out[k] = out.get(k, 0) + s * v
    return {k: v for k, v in out.items() if v}, a[1] + s * b[1]
  if isinstance(e, ast.BinOp) and isinstance(e.op, ast.Mult):
    a, b = linear(e.left, consts), linear(e.right, consts)
    if a is None or b is None:
      return None
    if not a[0]:
      return {k: a[1] * v for k, v in b[0].items() if a[1] * v}, a[1] * b[1]
    if not b[0]:
      return {k: b[1] * v for k, v in a[0].items() if b[1] * v}, a[1] * b[1]
    return None
  if isinstance(e, (ast.Name, ast.Attribute, ast.Subscript, ast.Call)):
    t = norm(e)
    if t in consts:
      return {}, consts[t]
    if isinstance(e, ast.Call) and not (isinstance(e.func, ast.Name) and e.func.id in ('len', 'int')):
      return None
    if isinstance(e, ast.Call) and e.func.id == 'int' and len(e.args) == 1:
      return linear(e.args[0], consts)
    return {t: 1}, 0
  return None


def canonical(e, truth, consts=None):
  """See module docstring. A != / == test yields None for the side that is a disjunction."""
  if isinstance(e, ast.UnaryOp) and isinstance(e.op, ast.Not):
    return canonical(e.operand, not truth, consts)
  if not (isinstance(e, ast.Compare) and len(e.ops) == 1):
    return None
  l, r = linear(e.left, consts), linear(e.comparators[0], consts)
  if l is None or r is None:
    return None
  co = dict(l[0])
  for k, v in r[0].items():
    co[k] = co.get(k, 0) - v
  co = {k: v for k, v in co.items() if v}
  c = l[1] - r[1]
  op = type(e.ops[0])
  neg = lambda: ({k: -v for k, v in co.items()}, -c)
  if not truth:
    op = {ast.Lt: ast.GtE, ast.LtE: ast.Gt, ast.Gt: ast.LtE, ast.GtE: ast.Lt, ast.Eq: ast.NotEq, ast.NotEq: ast.Eq}.get(op)
  if op is ast.LtE:
    return [(co, c)]
  if op is ast.Lt:
    return [(co, c + 1)]
  if op is ast.GtE:
    n = neg()
    return [n]
  if op is ast.Gt:
    n = neg()
    return [(n[0], n[1] + 1)]
  if op is ast.Eq:
    n = neg()
    return [(co, c), n]
  return None
