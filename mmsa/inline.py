"""Inlining of simple helper methods (single trailing return) into a caller, at
AST level, so that an "extract helper" refactoring does not change what the
path/def-use rules see."""
import ast

from mmsa import core, dataflow
from mmsa.core import dotted, norm, walk_no_nested

_counter = [0]


def _simple_arg(e):
  return isinstance(e, (ast.Name, ast.Constant)) or (
      isinstance(e, (ast.Attribute, ast.Subscript)) and all(isinstance(x, (ast.Name, ast.Attribute, ast.Subscript, ast.Constant, ast.Load, ast.BinOp, ast.Add, ast.Sub))
                                                             for x in ast.walk(e)))


def _kwarg_only_forwarded(h):
  """The **kwargs parameter of h is used only to be passed on as **kwargs in calls: then the keywords of a call site can
  be written in its place."""
  name = h.node.args.kwarg.arg
  splats = {id(k.value) for c in ast.walk(h.node) if isinstance(c, ast.Call) for k in c.keywords if k.arg is None and isinstance(k.value, ast.Name) and k.value.id == name}
  for x in ast.walk(h.node):
    if isinstance(x, ast.Name) and x.id == name and id(x) not in splats:
      return False
  return bool(splats)


def inlinable(h):
  """'value' for a helper whose only return is its last top-level statement, 'procedure' for one without any
  return statement, else None (early returns, generators, *args)."""
  body = [s for s in h.node.body if not (isinstance(s, ast.Expr) and isinstance(s.value, ast.Constant))]
  if not body:
    return None
  if any(isinstance(s, (ast.Yield, ast.YieldFrom, ast.Global, ast.Nonlocal)) for s in walk_no_nested(h.node)):
    return None
  if h.node.args.vararg:
    return None
  if h.node.args.kwarg and not _kwarg_only_forwarded(h):
    return None
  rets = [s for s in walk_no_nested(h.node) if isinstance(s, ast.Return)]
  if not rets:
    return 'procedure'
  if len(rets) == 1 and isinstance(body[-1], ast.Return) and body[-1].value is not None:
    return 'value'
  return None


def _instantiate(h, call, selfname, tag):
  """(statements, result expression) of helper h instantiated at `call`."""
  params = h.params
  args = list(call.args)
  binding = {}
  off = 0
  if h.kind in ('method',):
    binding[params[0]] = ast.Name(id=selfname, ctx=ast.Load())
    off = 1
  elif h.kind == 'static':
    off = 0
  fparams = params[off:]
  defaults = h.node.args.defaults
  dmap = {}
  if defaults:
    for p, d in zip(h.node.args.args[-len(defaults):], defaults):
      dmap[p.arg] = d
  pre = []
  for i, p in enumerate(fparams):
    if i < len(args):
      a = args[i]
    else:
      kw = [k.value for k in call.keywords if k.arg == p]
      a = kw[0] if kw else dmap.get(p)
    if a is None:
      return None
    binding[p] = a
  # parameters reassigned in the helper, or complex args: bind through a fresh local
  assigned = set()
  for s in walk_no_nested(h.node):
    if isinstance(s, (ast.Assign, ast.AugAssign, ast.AnnAssign, ast.For)):
      tg = s.targets if isinstance(s, ast.Assign) else [s.target]
      for t in tg:
        for x in ast.walk(t):
          if isinstance(x, ast.Name) and isinstance(x.ctx, ast.Store):
            assigned.add(x.id)
  rename = {}
  for p in fparams:
    if p in assigned or not _simple_arg(binding[p]):
      new = '%s__%s' % (p, tag)
      pre.append(ast.Assign(targets=[ast.Name(id=new, ctx=ast.Store())], value=dataflow.clone(binding[p]), lineno=call.lineno, col_offset=0))
      rename[p] = new
      del binding[p]
  for nm in assigned:
    if nm not in rename and nm not in fparams:
      rename[nm] = '%s__%s' % (nm, tag)

  def sub(e):
    if isinstance(e, ast.Name):
      if e.id in rename:
        return ast.Name(id=rename[e.id], ctx=e.ctx)
      if e.id in binding and isinstance(e.ctx, ast.Load):
        return dataflow.clone(binding[e.id])
      return e
    return dataflow._map_children(e, sub)

  body = [s for s in h.node.body if not (isinstance(s, ast.Expr) and isinstance(s.value, ast.Constant))]
  if inlinable(h) == 'procedure':
    return pre + [sub(dataflow.clone(s)) for s in body], None
  stmts = pre + [sub(dataflow.clone(s)) for s in body[:-1]]
  result = sub(dataflow.clone(body[-1].value))
  return stmts, result


def inline_function(repo, f, want, max_rounds=3):
  """New FuncInfo whose body has calls `self.h(...)` to helpers satisfying want(h) inlined."""
  cls = f.cls
  if cls is None:
    return f
  selfname = f.params[0] if f.params else 'self'
  node = dataflow.clone(f.node)
  changed_any = False
  for _ in range(max_rounds):
    changed = [False]

    def process_block(stmts):
      out = []
      for st in stmts:
        # recurse into compound statements first
        for fld in ('body', 'orelse', 'finalbody'):
          if hasattr(st, fld) and isinstance(getattr(st, fld), list) and not isinstance(st, (ast.FunctionDef, ast.ClassDef)):
            setattr(st, fld, process_block(getattr(st, fld)))
        if isinstance(st, ast.Try):
          for hd in st.handlers:
            hd.body = process_block(hd.body)
        if isinstance(st, (ast.FunctionDef, ast.ClassDef)):
          out.append(st)
          continue
        # calls in the *header/simple* part of the statement
        exprs = []
        if isinstance(st, (ast.Assign, ast.AugAssign, ast.AnnAssign, ast.Expr, ast.Return)):
          exprs = [st]
        elif isinstance(st, (ast.If, ast.While)):
          exprs = []   # inlining into loop/if tests would change evaluation points; not needed here
        pre_all = []
        drop_stmt = [False]
        for root in exprs:
          for callnode in [c for c in ast.walk(root) if isinstance(c, ast.Call)]:
            fn = callnode.func
            if isinstance(fn, ast.Attribute) and isinstance(fn.value, ast.Name) and fn.value.id == selfname and fn.attr in cls.methods:
              h = cls.methods[fn.attr]
              if h.node is f.node or not want(h) or not inlinable(h):
                continue
              _counter[0] += 1
              inst = _instantiate(h, callnode, selfname, 'h%d' % _counter[0])
              if inst is None:
                continue
              stmts_h, result = inst
              if result is None:
                # a procedure: only when the call is the whole statement
                if isinstance(st, ast.Expr) and st.value is callnode:
                  pre_all += stmts_h
                  drop_stmt[0] = True
                  changed[0] = True
                continue
              pre_all += stmts_h
              # replace the call node in place
              _replace(root, callnode, result)
              changed[0] = True
        out += pre_all
        if not drop_stmt[0]:
          out.append(st)
      return out
    node.body = process_block(node.body)
    if not changed[0]:
      break
    changed_any = True
  if not changed_any:
    return f
  ast.fix_missing_locations(node)
  for n in ast.walk(node):
    for ch in ast.iter_child_nodes(n):
      ch._parent = n
  node._parent = None
  g = core.FuncInfo(f.module, node, f.cls, f.kind, f.outer)
  g.inlined_from = f
  return g


def _replace(root, old, new):
  for n in ast.walk(root):
    for fld, val in ast.iter_fields(n):
      if val is old:
        setattr(n, fld, new)
        return True
      if isinstance(val, list):
        for i, x in enumerate(val):
          if x is old:
            val[i] = new
            return True
  return False


def builds_designs(h):
  t = norm(h.node)
  return 'TBRMMDesign(' in t or '.push(' in t or 'TBRMMScore(' in t


# -- expression-level inlining ----------------------------------------------------------------
def _single_return_expr(h):
  body = [s for s in h.node.body if not (isinstance(s, ast.Expr) and isinstance(s.value, ast.Constant))]
  if len(body) == 1 and isinstance(body[0], ast.Return) and body[0].value is not None:
    return body[0].value
  return None


def _resolve_simple_callee(f, call):
  """FuncInfo of a nested closure (of f or its enclosing functions) or a same-class method/static method."""
  fn = call.func
  if isinstance(fn, ast.Name):
    top = f
    while top is not None:
      if fn.id in top.nested:
        if fn.id in getattr(top, 'ambiguous_nested', ()):
          return None
        return top.nested[fn.id]
      top = top.outer
    return None
  cls = f.cls
  if cls is not None and isinstance(fn, ast.Attribute) and isinstance(fn.value, ast.Name) and fn.attr in cls.methods:
    selfn = None
    top = f
    while top is not None:
      if top.params and top.kind in ('method', 'getter', 'setter'):
        selfn = top.params[0]
      top = top.outer
    if fn.value.id in (selfn, cls.name):
      return cls.methods[fn.attr]
  return None


def inline_expr(f, e, depth=3):
  """Copy of expression e in which calls to single-expression closures / same-class helpers are replaced by their
  body (parameters substituted), and `*helper(...)` star-arguments of tuple-returning helpers are spread."""
  e = dataflow.clone(e)

  def expand_args(args):
    out = []
    for a in args:
      if isinstance(a, ast.Starred) and isinstance(a.value, ast.Call):
        inner = subst_call(a.value, depth - 1)
        if isinstance(inner, ast.Tuple):
          out += list(inner.elts)
          continue
      out.append(a)
    return out

  def subst_call(call, d):
    if d <= 0:
      return call
    h = _resolve_simple_callee(f, call)
    if h is None:
      return call
    body = _single_return_expr(h)
    if body is None or call.keywords and any(k.arg is None for k in call.keywords):
      return call
    params = h.params[1:] if h.kind in ('method',) else h.params
    args = expand_args(call.args)
    if len(args) > len(params):
      return call
    bind = dict(zip(params, args))
    for k in call.keywords:
      bind[k.arg] = k.value
    if set(params) - set(bind):
      return call
    selfname = h.params[0] if h.kind == 'method' and h.params else None

    def sub(x):
      if isinstance(x, ast.Name) and isinstance(x.ctx, ast.Load) and x.id in bind:
        return dataflow.clone(bind[x.id])
      return dataflow._map_children(x, sub)
    new = sub(dataflow.clone(body))
    return walk(new, d - 1)

  def walk(x, d):
    if isinstance(x, ast.Call):
      x.args = expand_args([walk(a, d) if not isinstance(a, ast.Starred) else a for a in x.args])
      for k in x.keywords:
        k.value = walk(k.value, d)
      return subst_call(x, d)
    if isinstance(x, ast.AST):
      return dataflow._map_children(x, lambda c: walk(c, d))
    return x
  return walk(e, depth)


# -- whole-repository flattening of helpers that are not anchors ---------------------------------
# Every rule is anchored at functions that exist at the pinned commit (mmsa/pinned_names.json).  A function that is not
# in that table was introduced by a later change (an "extract helper" refactoring, or a change hiding a defect in a new
# helper); its calls are inlined into the anchors so that the rules see one body, exactly as before the extraction.
def _tail_expr(stmts):
  """Expression equal to the value returned by a statement list made only of returns and if/else of returns."""
  if not stmts:
    return None
  st = stmts[0]
  if isinstance(st, ast.Return) and st.value is not None:
    return st.value
  if isinstance(st, ast.If):
    a = _tail_expr(st.body)
    b = _tail_expr(list(st.orelse) + list(stmts[1:]))
    if a is not None and b is not None:
      return ast.IfExp(test=st.test, body=a, orelse=b)
  return None


def _tail_stmts(stmts, make):
  """The return tail as structured statements: `if c: return A` + `return B` -> `if c: make(A) else: make(B)`."""
  st = stmts[0]
  if isinstance(st, ast.Return):
    return [make(st.value)]
  return [ast.If(test=st.test, body=_tail_stmts(st.body, make), orelse=_tail_stmts(list(st.orelse) + list(stmts[1:]), make),
                 lineno=st.lineno, col_offset=st.col_offset)]


def _strip_doc(body):
  return [s for s in body if not (isinstance(s, ast.Expr) and isinstance(s.value, ast.Constant))]


class _NotStructured(Exception):
  pass


def _has_return(st):
  return any(isinstance(x, ast.Return) for x in walk_no_nested(st)) if not isinstance(st, (ast.FunctionDef, ast.ClassDef)) else False


def _eliminate_bare_returns(stmts):
  """Statement list equivalent to `stmts` of a procedure, without `return`: `if c: return` + REST -> `if c: pass else: REST`."""
  def elim(lst):
    """(new statements, terminated) - terminated when control never falls off the end of the list."""
    out = []
    for i, st in enumerate(lst):
      if isinstance(st, ast.Return):
        return out, True
      if isinstance(st, ast.If) and _has_return(st):
        b, bt = elim(st.body)
        o, ot = elim(st.orelse)
        rest, rt = elim(lst[i + 1:])
        if bt and ot:
          new = ast.If(test=st.test, body=b or [ast.Pass()], orelse=o, lineno=st.lineno, col_offset=st.col_offset)
          return out + [new], True
        if bt:
          new = ast.If(test=st.test, body=b or [ast.Pass()], orelse=o + rest, lineno=st.lineno, col_offset=st.col_offset)
          return out + [new], rt
        if ot:
          new = ast.If(test=st.test, body=b + rest or [ast.Pass()], orelse=o or [ast.Pass()], lineno=st.lineno, col_offset=st.col_offset)
          return out + [new], rt
        raise _NotStructured()
      if _has_return(st):
        raise _NotStructured()
      out.append(st)
    return out, False
  return elim(stmts)[0]


def _falls_through(stmts):
  """Control can reach the end of the statement list (conservative: True unless it ends in return/raise)."""
  if not stmts:
    return True
  last = stmts[-1]
  if isinstance(last, (ast.Return, ast.Raise)):
    return False
  if isinstance(last, ast.If):
    return _falls_through(last.body) or _falls_through(last.orelse)
  if isinstance(last, ast.Try) and not last.orelse and not last.finalbody:
    return _falls_through(last.body) or any(_falls_through(hd.body) for hd in last.handlers)
  return True


def _structured_body(stmts, make):
  """`stmts` with every `return v` replaced by make(v), for bodies in which nothing runs after a return:
  returns are the last statement of if/else branches and try bodies (code following a branching statement is
  moved into the branches that fall through)."""
  out = []
  for i, st in enumerate(stmts):
    if isinstance(st, ast.Return):
      if st.value is None:
        raise _NotStructured()
      return out + [make(st.value)]
    if not _has_return(st):
      out.append(st)
      continue
    rest = list(stmts[i + 1:])
    if isinstance(st, ast.If):
      body = _structured_body(list(st.body) + (rest if _falls_through(st.body) else []), make)
      orelse = _structured_body(list(st.orelse) + (rest if _falls_through(st.orelse) else []), make)
      return out + [ast.If(test=st.test, body=body or [ast.Pass()], orelse=orelse, lineno=st.lineno, col_offset=st.col_offset)]
    if isinstance(st, ast.Try) and not st.orelse and not st.finalbody:
      if _falls_through(st.body) or any(_falls_through(hd.body) for hd in st.handlers):
        if rest:
          raise _NotStructured()
      new = ast.Try(body=_structured_body(list(st.body), make),
                    handlers=[ast.ExceptHandler(type=hd.type, name=hd.name, body=_structured_body(list(hd.body), make),
                                                lineno=hd.lineno, col_offset=hd.col_offset) for hd in st.handlers],
                    orelse=[], finalbody=[], lineno=st.lineno, col_offset=st.col_offset)
      return out + [new]
    raise _NotStructured()
  return out


def _fold_prefix(prefix, expr):
  """expr with the single-assignment locals of `prefix` (x = E, each name assigned once, in order) substituted; None when
  the prefix contains anything else."""
  env = {}
  for st in prefix:
    if not (isinstance(st, ast.Assign) and len(st.targets) == 1 and isinstance(st.targets[0], ast.Name)) or st.targets[0].id in env:
      return None

    def sub(e):
      if isinstance(e, ast.Name) and isinstance(e.ctx, ast.Load) and e.id in env:
        return dataflow.clone(env[e.id])
      return dataflow._map_children(e, sub) if isinstance(e, ast.AST) else e
    env[st.targets[0].id] = sub(dataflow.clone(st.value))

  def sub2(e):
    if isinstance(e, ast.Name) and isinstance(e.ctx, ast.Load) and e.id in env:
      return dataflow.clone(env[e.id])
    return dataflow._map_children(e, sub2) if isinstance(e, ast.AST) else e
  return sub2(dataflow.clone(expr))


def helper_shape(h):
  """('expr', prefix, expr) | ('proc', stmts, None) | ('gen', stmts, None) | None."""
  body = _strip_doc(h.node.body)
  if not body:
    return None
  # a decorated helper (lru_cache, a property builder, contextmanager ...) is not its body: it is never inlined
  #  -- except a memoising decorator on a function that takes no instance (module level / static): its value is that of the body
  decs_ = [norm(d_).split('(')[0].split('.')[-1] for d_ in getattr(h.node, 'decorator_list', [])]
  plain_ = h.cls is None or 'staticmethod' in decs_
  if any(d_ not in ('staticmethod', 'classmethod') and not (d_ in ('lru_cache', 'cache') and plain_) and not (d_ == 'property' and h.kind == 'getter') for d_ in decs_):
    return None
  a = h.node.args
  if a.vararg or (a.kwarg and not _kwarg_only_forwarded(h)):
    return None
  inner = list(walk_no_nested(h.node))
  if any(isinstance(s, (ast.Global, ast.Nonlocal)) for s in inner):
    return None
  rets = [s for s in inner if isinstance(s, ast.Return)]
  if any(isinstance(s, (ast.Yield, ast.YieldFrom)) for s in inner):
    if rets:
      return None
    return ('gen', body, None)
  if not rets:
    return ('proc', body, None)
  if all(r.value is None or (isinstance(r.value, ast.Constant) and r.value.value is None) for r in rets):
    try:
      return ('proc', _eliminate_bare_returns([dataflow.clone(x) for x in body]) or [ast.Pass()], None)
    except _NotStructured:
      return None
  # longest prefix without returns, then a pure return tail
  k = 0
  while k < len(body) and not any(isinstance(s, ast.Return) for s in walk_no_nested(body[k])) \
      and not isinstance(body[k], (ast.FunctionDef, ast.ClassDef)):
    k += 1
  tail = _tail_expr(body[k:])
  if tail is None:
    try:
      _structured_body([dataflow.clone(x) for x in body], lambda v: ast.Pass())
    except _NotStructured:
      return None
    return ('struct', body, None)
  return ('expr', body[:k], tail, body[k:])


def _bind(h, call, selfexpr, tag, stmts, result, taken=None):
  """Instantiate helper statements/result at `call`: returns (pre_statements, statements, result) or None."""
  a = h.node.args
  params = [x.arg for x in a.posonlyargs + a.args]
  kwonly = [x.arg for x in a.kwonlyargs]
  binding = {}
  if h.kind in ('method', 'getter'):
    if selfexpr is None or not params:
      return None
    binding[params[0]] = selfexpr
    params = params[1:]
  elif h.kind == 'classmethod':
    if not params or h.cls is None:
      return None
    binding[params[0]] = ast.Name(id=h.cls.name, ctx=ast.Load())
    params = params[1:]
  dmap = {}
  if a.defaults:
    for p, d in zip((a.posonlyargs + a.args)[-len(a.defaults):], a.defaults):
      dmap[p.arg] = d
  for p, d in zip(a.kwonlyargs, a.kw_defaults):
    if d is not None:
      dmap[p.arg] = d
  args = list(call.args)
  if any(isinstance(x, ast.Starred) for x in args) or any(k.arg is None for k in call.keywords) or len(args) > len(params):
    return None
  kw = {k.arg: k.value for k in call.keywords}
  extras = []
  if set(kw) - set(params) - set(kwonly):
    if a.kwarg is None:
      return None
    extras = [k for k in call.keywords if k.arg not in params and k.arg not in kwonly]
    kw = {k_: v_ for k_, v_ in kw.items() if k_ in params or k_ in kwonly}
  for i, p in enumerate(params + kwonly):
    if i < len(args) and i < len(params):
      v = args[i]
    elif p in kw:
      v = kw[p]
    else:
      v = dmap.get(p)
    if v is None:
      return None
    binding[p] = v
  assigned = set()
  for body_st in stmts:
    for s in walk_no_nested(body_st):
      tg = []
      if isinstance(s, ast.Assign):
        tg = s.targets
      elif isinstance(s, (ast.AugAssign, ast.AnnAssign, ast.For)):
        tg = [s.target]
      elif isinstance(s, ast.With):
        tg = [i.optional_vars for i in s.items if i.optional_vars is not None]
      elif isinstance(s, ast.NamedExpr):
        tg = [s.target]
      elif isinstance(s, (ast.ListComp, ast.SetComp, ast.GeneratorExp, ast.DictComp)):
        continue
      for t in tg:
        for x in ast.walk(t):
          if isinstance(x, ast.Name) and isinstance(x.ctx, ast.Store):
            assigned.add(x.id)
  pre = []
  rename = {}
  uses = {}
  for body_st in list(stmts) + ([result] if result is not None else []):
    for x in ast.walk(body_st):
      if isinstance(x, ast.Name) and isinstance(x.ctx, ast.Load):
        uses[x.id] = uses.get(x.id, 0) + 1
  for p in list(binding):
    if h.kind in ('method', 'classmethod', 'getter') and p == (a.posonlyargs + a.args)[0].arg:
      continue
    if p in assigned or (not _simple_arg(binding[p]) and (stmts or uses.get(p, 0) > 1)):
      new = p if (taken is not None and p not in taken) else '%s__%s' % (p, tag)
      pre.append(ast.Assign(targets=[ast.Name(id=new, ctx=ast.Store())], value=dataflow.clone(binding[p]),
                            lineno=call.lineno, col_offset=0))
      rename[p] = new
      del binding[p]
  for nm in assigned:
    if nm not in rename:
      # a helper local keeps its name unless the caller already uses that name
      rename[nm] = nm if (taken is not None and nm not in taken) else '%s__%s' % (nm, tag)
  if taken is not None:
    taken.update(rename.values())

  def sub(e):
    if isinstance(e, ast.Name):
      if e.id in rename:
        return ast.Name(id=rename[e.id], ctx=e.ctx)
      if e.id in binding and isinstance(e.ctx, ast.Load):
        return dataflow.clone(binding[e.id])
      return e
    if isinstance(e, (ast.FunctionDef, ast.ClassDef)):
      return e
    if a.kwarg is not None and isinstance(e, ast.Call) and any(k.arg is None and isinstance(k.value, ast.Name) and k.value.id == a.kwarg.arg for k in e.keywords):
      # f(x, **kwargs) in the helper: the keywords of this call site take the place of **kwargs
      kws_ = []
      for k in e.keywords:
        if k.arg is None and isinstance(k.value, ast.Name) and k.value.id == a.kwarg.arg:
          kws_ += [ast.keyword(arg=x_.arg, value=dataflow.clone(x_.value)) for x_ in extras]
        else:
          kws_.append(k)
      e.keywords = kws_
    return dataflow._map_children(e, sub)

  # `del param  # unused` in the helper unbinds the helper's own parameter: it has no counterpart at the call site
  all_params = {x.arg for x in a.posonlyargs + a.args + a.kwonlyargs}
  stmts = [s for s in stmts if not (isinstance(s, ast.Delete) and all(isinstance(t, ast.Name) and t.id in all_params for t in s.targets))]
  out = [sub(dataflow.clone(s)) for s in stmts]
  res = sub(dataflow.clone(result)) if result is not None else None
  for s in pre + out:
    for x in ast.walk(s):
      if not hasattr(x, 'lineno') and isinstance(x, (ast.stmt, ast.expr)):
        x.lineno = call.lineno
        x.col_offset = 0
  return pre, out, res


def _unconditional_in(test, call):
  """The call is evaluated whenever the test is (not behind a short-circuit / conditional / lambda)."""
  p = getattr(call, '_fparent', None)
  child = call
  while p is not None and child is not test:
    if isinstance(p, ast.BoolOp) and p.values[0] is not child:
      return False
    if isinstance(p, ast.IfExp) and p.test is not child:
      return False
    if isinstance(p, (ast.Lambda, ast.GeneratorExp, ast.ListComp, ast.SetComp, ast.DictComp)):
      return False
    if isinstance(p, ast.Compare) and len(p.comparators) > 1 and child is not p.left and child is not p.comparators[0]:
      return False
    child, p = p, getattr(p, '_fparent', None)
  return child is test


class _Flattener:

  def __init__(self, repo, is_helper):
    self.repo = repo
    self.is_helper = is_helper
    self.used = []

  def callee(self, info, call):
    """(helper FuncInfo, expression for its self or None) for a call made inside function `info`."""
    fn = call.func
    repo = self.repo
    if isinstance(fn, ast.Name):
      top = info
      while top is not None:
        if fn.id in top.nested:
          if fn.id in getattr(top, 'ambiguous_nested', ()):
            return None, None       # defined once per branch: not one function
          return top.nested[fn.id], None
        top = top.outer
      q = '%s.%s' % (info.module.name, fn.id)
      if q in repo.functions:
        return repo.functions[q], None
      r = repo.resolve_dotted(info.module, fn.id)
      if r and r[0] == 'func' and r[1].cls is None:
        return r[1], None
      return None, None
    if isinstance(fn, ast.Attribute) and isinstance(fn.value, ast.Name):
      cls = info.cls
      selfn = None
      top = info
      while top is not None:
        if top.kind in ('method', 'getter', 'setter') and top.params:
          selfn = top.params[0]
        top = top.outer
      if cls is not None and fn.attr in cls.methods:
        h = cls.methods[fn.attr]
        if fn.value.id == selfn and selfn is not None:
          return h, ast.Name(id=selfn, ctx=ast.Load())
        if fn.value.id == cls.name and h.kind in ('static', 'classmethod'):
          return h, None
        if h.kind in ('static', 'classmethod') and fn.value.id in ('cls', selfn):
          return h, None
      r = repo.resolve_dotted(info.module, dotted(fn))
      if r and r[0] == 'func' and r[1].cls is None:
        return r[1], None
      if r and r[0] == 'func' and r[1].kind == 'static' and r[1].cls is not None:
        # SomeClass.static_helper(...): the receiver names the class itself (not a local variable of that name)
        rc = repo.resolve_dotted(info.module, fn.value.id)
        local = any(isinstance(x, ast.Name) and x.id == fn.value.id and isinstance(x.ctx, ast.Store) for x in ast.walk(info.node)) \
            or fn.value.id in info.params
        if rc and rc[0] == 'class' and rc[1] is r[1].cls and not local:
          return r[1], None
    return None, None

  def flatten(self, f):
    node = dataflow.clone(f.node)
    _link(node, getattr(f.node, '_parent', None))
    tmp = core.FuncInfo(f.module, node, f.cls, f.kind, f.outer)
    changed_any = False
    for _ in range(4):
      self.changed = False
      self.process_function(tmp)
      if not self.changed:
        break
      changed_any = True
      _link(node, getattr(f.node, '_parent', None))
      tmp = core.FuncInfo(f.module, node, f.cls, f.kind, f.outer)
    if not changed_any:
      return False
    ast.fix_missing_locations(node)
    f.orig_node = f.node
    f.node = node
    f.nested = tmp.nested
    for g in f.nested.values():
      g.outer = f
    f.flattened = sorted(set(self.used))
    return True

  @staticmethod
  def stmt_only(shape):
    """Branching helpers are inlined at statement level when possible (second pass handles the rest)."""
    return False

  def process_function(self, info):
    top = info
    while top.outer is not None and top.outer.node is not None and any(x is info.node for x in ast.walk(top.outer.node)):
      top = top.outer
    self.taken = {x.id for x in ast.walk(top.node) if isinstance(x, ast.Name)} | {a.arg for x in ast.walk(top.node) if isinstance(x, ast.arguments)
                                                                                     for a in x.posonlyargs + x.args + x.kwonlyargs}
    info.node.body = self.block(info.node.body, info)
    for g in info.nested.values():
      if not self.is_helper(g):
        self.process_function(g)

  # expression-level ---------------------------------------------------------------------------
  def expr(self, e, info, depth=4, fold_ok=True):
    """Replace calls to expression-shaped helpers inside e (in place where possible); returns the new root.
    Helpers with a statement prefix are folded into one expression only where statements cannot be hoisted (tests,
    comprehensions, lambdas): fold_ok says whether the root context is such a place."""
    if depth <= 0 or not isinstance(e, ast.AST):
      return e

    def walk(x, comp=False):
      if isinstance(x, (ast.FunctionDef, ast.ClassDef)):
        return x
      inner = comp or isinstance(x, (ast.ListComp, ast.SetComp, ast.DictComp, ast.GeneratorExp, ast.Lambda, ast.IfExp, ast.BoolOp))
      x = dataflow._map_children(x, lambda c: walk(c, inner))
      if isinstance(x, ast.Attribute) and isinstance(x.ctx, ast.Load) and isinstance(x.value, ast.Name) and info.cls is not None \
          and x.attr in info.cls.getters and x.attr not in info.cls.setters:
        # self._view  where _view is a helper property (not an anchor) whose body is a single return: the returned expression
        selfn_ = None
        top_ = info
        while top_ is not None:
          if top_.kind in ('method', 'getter', 'setter') and top_.params:
            selfn_ = top_.params[0]
          top_ = top_.outer
        h_ = info.cls.getters[x.attr]
        if selfn_ is not None and x.value.id == selfn_ and self.is_helper(h_) and h_.node is not info.node:
          shape_ = helper_shape(h_)
          if shape_ and shape_[0] == 'expr' and not shape_[1]:
            _counter[0] += 1
            call_ = ast.Call(func=ast.Attribute(value=ast.Name(id=selfn_, ctx=ast.Load()), attr=x.attr, ctx=ast.Load()), args=[], keywords=[])
            b_ = _bind(h_, call_, ast.Name(id=selfn_, ctx=ast.Load()), 'e%d' % _counter[0], [], shape_[2], self.taken)
            if b_ is not None and not b_[0]:
              self.changed = True
              self.used.append(h_.qualname)
              return b_[2]
      if isinstance(x, ast.Call):
        # spread *helper(...) star-arguments of tuple-returning helpers
        new_args = []
        for a_ in x.args:
          if isinstance(a_, ast.Starred) and isinstance(a_.value, ast.Tuple):
            new_args += list(a_.value.elts)
            self.changed = True
          else:
            new_args.append(a_)
        x.args = new_args
        h, selfexpr = self.callee(info, x)
        if h is not None and self.is_helper(h) and h.node is not info.node:
          shape = helper_shape(h)
          if shape and shape[0] == 'expr' and shape[1] and (fold_ok or comp):
            folded = _fold_prefix(shape[1], shape[2])
            if folded is not None:
              shape = ('expr', [], folded, [ast.Return(value=folded)])
          if shape and shape[0] == 'expr' and not shape[1] and not self.stmt_only(shape):
            _counter[0] += 1
            b = _bind(h, x, selfexpr, 'e%d' % _counter[0], [], shape[2], self.taken)
            if b is not None and not b[0]:
              self.changed = True
              self.used.append(h.qualname)
              return b[2]
      return x
    return walk(e)

  # statement-level ------------------------------------------------------------------------------
  def block(self, stmts, info):
    out = []
    for st in stmts:
      if isinstance(st, (ast.FunctionDef, ast.ClassDef, ast.AsyncFunctionDef)):
        out.append(st)
        continue
      for fld in ('body', 'orelse', 'finalbody'):
        if hasattr(st, fld) and isinstance(getattr(st, fld), list):
          setattr(st, fld, self.block(getattr(st, fld), info))
      if isinstance(st, ast.Try):
        for hd in st.handlers:
          hd.body = self.block(hd.body, info)
      # header expressions
      heads = []
      if isinstance(st, (ast.If, ast.While)):
        st.test = self.expr(st.test, info)
        heads = [('test', st.test)] if isinstance(st, ast.If) else []
      elif isinstance(st, ast.For):
        st.iter = self.expr(st.iter, info)
        heads = [('iter', st.iter)]
      elif isinstance(st, ast.With):
        for it in st.items:
          it.context_expr = self.expr(it.context_expr, info)
      elif isinstance(st, (ast.Assign, ast.AugAssign, ast.AnnAssign, ast.Return, ast.Expr, ast.Raise, ast.Assert, ast.Delete)):
        for fld, val in list(ast.iter_fields(st)):
          if isinstance(val, ast.AST) and fld not in ('targets', 'target', 'op'):
            if fld == 'value' and isinstance(st, (ast.Assign, ast.Return)) and isinstance(val, ast.Call):
              h0, _ = self.callee(info, val)
              sh0 = helper_shape(h0) if h0 is not None and self.is_helper(h0) and h0.node is not info.node else None
              if sh0 and sh0[0] == 'expr' and isinstance(sh0[2], ast.IfExp):
                # a branching helper as the whole right-hand side: inlined below, at statement level
                val.args = [self.expr(a_, info) for a_ in val.args]
                for k_ in val.keywords:
                  k_.value = self.expr(k_.value, info)
                continue
            setattr(st, fld, self.expr(val, info, fold_ok=not isinstance(st, (ast.Assign, ast.AugAssign, ast.AnnAssign, ast.Return, ast.Expr))))
        if isinstance(st, (ast.Assign, ast.AugAssign, ast.AnnAssign, ast.Return, ast.Expr)) and getattr(st, 'value', None) is not None:
          heads = [('value', st.value)]
        if isinstance(st, ast.Raise) and st.exc is not None:
          heads = [('exc', st.exc)]
      pre_all = []
      drop = False
      for fld, root in heads:
        for n in ast.walk(root):
          for ch in ast.iter_child_nodes(n):
            ch._fparent = n
        root._fparent = None
        for callnode in [c for c in ast.walk(root) if isinstance(c, ast.Call)]:
          h, selfexpr = self.callee(info, callnode)
          if h is None or not self.is_helper(h) or h.node is info.node:
            continue
          shape = helper_shape(h)
          if shape is None:
            continue
          if not _unconditional_in(root, callnode):
            continue
          _counter[0] += 1
          tag = 'h%d' % _counter[0]
          kind, body, res = shape[:3]
          if kind == 'expr' and root is callnode and isinstance(st, (ast.Assign, ast.Return)) and isinstance(res, ast.IfExp):
            # branching helper whose call is the whole right-hand side: keep the branches as statements
            b = _bind(h, callnode, selfexpr, tag, list(body) + list(shape[3]), None, self.taken)
            if b is not None:
              def make(v, st=st):
                new = dataflow.clone(st)
                new.value = v
                return new
              pre_all += b[0] + b[1][:len(body)] + _tail_stmts(b[1][len(body):], make)
              drop = True
              self.changed = True
              self.used.append(h.qualname)
              break
          if kind == 'struct':
            rname = '%s_result' % h.name.lstrip('_')
            if rname in self.taken:
              rname = '%s__%s' % (rname, tag)

            def make(v, rname=rname, ln=callnode.lineno):
              return ast.Assign(targets=[ast.Name(id=rname, ctx=ast.Store())], value=v, lineno=getattr(v, 'lineno', ln), col_offset=0)
            sb = _structured_body([dataflow.clone(x) for x in body], make)
            b = _bind(h, callnode, selfexpr, tag, sb, ast.Name(id=rname, ctx=ast.Load()), self.taken)
            if b is None:
              continue
            pre_all += b[0] + b[1]
            if root is callnode:
              setattr(st, fld, b[2])
              root = b[2]
            else:
              _replace(root, callnode, b[2])
            self.changed = True
            self.used.append(h.qualname)
            continue
          if kind in ('proc', 'gen'):
            whole = isinstance(st, ast.Expr) and (st.value is callnode or (
                kind == 'gen' and isinstance(st.value, ast.YieldFrom) and st.value.value is callnode))
            if not whole or (kind == 'proc' and isinstance(st.value, ast.YieldFrom)):
              continue
            if kind == 'gen' and not isinstance(st.value, ast.YieldFrom):
              continue
            b = _bind(h, callnode, selfexpr, tag, body, None, self.taken)
            if b is None:
              continue
            pre_all += b[0] + b[1]
            drop = True
            self.changed = True
            self.used.append(h.qualname)
            break
          b = _bind(h, callnode, selfexpr, tag, body, res, self.taken)
          if b is None:
            continue
          pre_all += b[0] + b[1]
          if root is callnode:
            setattr(st, fld, b[2])
            root = b[2]
          else:
            _replace(root, callnode, b[2])
          self.changed = True
          self.used.append(h.qualname)
      out += pre_all
      if not drop:
        out.append(st)
    return out


def _link(node, parent):
  for n in ast.walk(node):
    for ch in ast.iter_child_nodes(n):
      ch._parent = n
  node._parent = parent


def flatten_repo(repo, pinned):
  """Inline every function that is not in `pinned` into the pinned functions that call it. Returns the report
  {anchor qualname: [helpers inlined]}."""
  def is_helper(h):
    return h.qualname not in pinned
  done = {}

  def all_funcs():
    for f in list(repo.functions.values()):
      yield f
  for f in all_funcs():
    if is_helper(f):
      continue
    fl = _Flattener(repo, is_helper)
    if fl.flatten(f):
      done[f.qualname] = f.flattened
  return done
