"""Inlining of simple helper methods (single trailing return) into a caller, at
AST level, so that an "extract helper" refactoring does not change what the
path/def-use rules see."""
import ast

from mmsa import core, dataflow
from mmsa.core import norm, walk_no_nested

_counter = [0]


def _simple_arg(e):
  return isinstance(e, (ast.Name, ast.Constant)) or (
      isinstance(e, (ast.Attribute, ast.Subscript)) and all(isinstance(x, (ast.Name, ast.Attribute, ast.Subscript, ast.Constant, ast.Load, ast.BinOp, ast.Add, ast.Sub))
                                                             for x in ast.walk(e)))


def inlinable(h):
  """Helper with no early return: the only return is the last top-level statement."""
  body = [s for s in h.node.body if not (isinstance(s, ast.Expr) and isinstance(s.value, ast.Constant))]
  if not body or not isinstance(body[-1], ast.Return) or body[-1].value is None:
    return False
  rets = [s for s in walk_no_nested(h.node) if isinstance(s, ast.Return)]
  if len(rets) != 1:
    return False
  if any(isinstance(s, (ast.Yield, ast.YieldFrom, ast.Global, ast.Nonlocal)) for s in walk_no_nested(h.node)):
    return False
  if h.node.args.vararg or h.node.args.kwarg:
    return False
  return True


def _instantiate(h, call, selfname, tag):
  """(statements, result expression) of helper h instantiated at `call`."""
  params = h.params
  args = list(call.args)
  binding = {}
  off = 0
  if h.kind in ('method',):
    binding[params[0]] = ast.Name(id=selfname, ctx=ast.Load())
    off = 1
  elif h.kind == 'static':
    off = 0
  fparams = params[off:]
  defaults = h.node.args.defaults
  dmap = {}
  if defaults:
    for p, d in zip(h.node.args.args[-len(defaults):], defaults):
      dmap[p.arg] = d
  pre = []
  for i, p in enumerate(fparams):
    if i < len(args):
      a = args[i]
    else:
      kw = [k.value for k in call.keywords if k.arg == p]
      a = kw[0] if kw else dmap.get(p)
    if a is None:
      return None
    binding[p] = a
  # parameters reassigned in the helper, or complex args: bind through a fresh local
  assigned = set()
  for s in walk_no_nested(h.node):
    if isinstance(s, (ast.Assign, ast.AugAssign, ast.AnnAssign, ast.For)):
      tg = s.targets if isinstance(s, ast.Assign) else [s.target]
      for t in tg:
        for x in ast.walk(t):
          if isinstance(x, ast.Name) and isinstance(x.ctx, ast.Store):
            assigned.add(x.id)
  rename = {}
  for p in fparams:
    if p in assigned or not _simple_arg(binding[p]):
      new = '%s__%s' % (p, tag)
      pre.append(ast.Assign(targets=[ast.Name(id=new, ctx=ast.Store())], value=dataflow.clone(binding[p]), lineno=call.lineno, col_offset=0))
      rename[p] = new
      del binding[p]
  for nm in assigned:
    if nm not in rename and nm not in fparams:
      rename[nm] = '%s__%s' % (nm, tag)

  def sub(e):
    if isinstance(e, ast.Name):
      if e.id in rename:
        return ast.Name(id=rename[e.id], ctx=e.ctx)
      if e.id in binding and isinstance(e.ctx, ast.Load):
        return dataflow.clone(binding[e.id])
      return e
    return dataflow._map_children(e, sub)

  body = [s for s in h.node.body if not (isinstance(s, ast.Expr) and isinstance(s.value, ast.Constant))]
  stmts = pre + [sub(dataflow.clone(s)) for s in body[:-1]]
  result = sub(dataflow.clone(body[-1].value))
  return stmts, result


def inline_function(repo, f, want, max_rounds=3):
  """New FuncInfo whose body has calls `self.h(...)` to helpers satisfying want(h) inlined."""
  cls = f.cls
  if cls is None:
    return f
  selfname = f.params[0] if f.params else 'self'
  node = dataflow.clone(f.node)
  changed_any = False
  for _ in range(max_rounds):
    changed = [False]

    def process_block(stmts):
      out = []
      for st in stmts:
        # recurse into compound statements first
        for fld in ('body', 'orelse', 'finalbody'):
          if hasattr(st, fld) and isinstance(getattr(st, fld), list) and not isinstance(st, (ast.FunctionDef, ast.ClassDef)):
            setattr(st, fld, process_block(getattr(st, fld)))
        if isinstance(st, ast.Try):
          for hd in st.handlers:
            hd.body = process_block(hd.body)
        if isinstance(st, (ast.FunctionDef, ast.ClassDef)):
          out.append(st)
          continue
        # calls in the *header/simple* part of the statement
        exprs = []
        if isinstance(st, (ast.Assign, ast.AugAssign, ast.AnnAssign, ast.Expr, ast.Return)):
          exprs = [st]
        elif isinstance(st, (ast.If, ast.While)):
          exprs = []   # inlining into loop/if tests would change evaluation points; not needed here
        pre_all = []
        for root in exprs:
          for callnode in [c for c in ast.walk(root) if isinstance(c, ast.Call)]:
            fn = callnode.func
            if isinstance(fn, ast.Attribute) and isinstance(fn.value, ast.Name) and fn.value.id == selfname and fn.attr in cls.methods:
              h = cls.methods[fn.attr]
              if h.node is f.node or not want(h) or not inlinable(h):
                continue
              _counter[0] += 1
              inst = _instantiate(h, callnode, selfname, 'h%d' % _counter[0])
              if inst is None:
                continue
              stmts_h, result = inst
              pre_all += stmts_h
              # replace the call node in place
              _replace(root, callnode, result)
              changed[0] = True
        out += pre_all
        out.append(st)
      return out
    node.body = process_block(node.body)
    if not changed[0]:
      break
    changed_any = True
  if not changed_any:
    return f
  ast.fix_missing_locations(node)
  for n in ast.walk(node):
    for ch in ast.iter_child_nodes(n):
      ch._parent = n
  node._parent = None
  g = core.FuncInfo(f.module, node, f.cls, f.kind, f.outer)
  g.inlined_from = f
  return g


def _replace(root, old, new):
  for n in ast.walk(root):
    for fld, val in ast.iter_fields(n):
      if val is old:
        setattr(n, fld, new)
        return True
      if isinstance(val, list):
        for i, x in enumerate(val):
          if x is old:
            val[i] = new
            return True
  return False


def builds_designs(h):
  t = norm(h.node)
  return 'TBRMMDesign(' in t or '.push(' in t or 'TBRMMScore(' in t
