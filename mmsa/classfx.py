"""Per-class field analysis: which `self.<field>` a method stores, loads, resets."""
import ast

from mmsa import cfg as cfgmod
from mmsa.core import norm, walk_no_nested


def self_attr(node, selfname='self'):
  """Field name when node is `self.<name>`, else None."""
  if isinstance(node, ast.Attribute) and isinstance(node.value, ast.Name) and node.value.id == selfname:
    return node.attr
  return None


def is_none(node):
  return isinstance(node, ast.Constant) and node.value is None


class ClassFields:
  """Field-level facts about one class (no inheritance in this code base)."""

  def __init__(self, cls):
    self.cls = cls
    self.funcs = {f.qualname: f for f in cls.all_functions()}
    self.cfgs = {}
    self._reads = {}

  def selfname(self, f):
    a = f.node.args.args
    return a[0].arg if a and f.kind != 'static' else None

  def cfg(self, f):
    if f.qualname not in self.cfgs:
      self.cfgs[f.qualname] = cfgmod.CFG(f.node)
    return self.cfgs[f.qualname]

  # -- stores ------------------------------------------------------------------
  def stores(self, f):
    """List of (field, cfg_node, value_expr, via) for every `self.F = v` in f.
    via == 'setter' when F is a property with a setter (a call, not a field
    store), 'field' otherwise. Augmented stores have value None."""
    out = []
    sn = self.selfname(f)
    g = self.cfg(f)
    for n in g.nodes:
      if n.kind != 'stmt':
        continue
      st = n.ast
      targets = []
      if isinstance(st, ast.Assign):
        for t in st.targets:
          targets += [(x, st.value) for x in _flatten(t)]
      elif isinstance(st, ast.AnnAssign) and st.value is not None:
        targets.append((st.target, st.value))
      elif isinstance(st, ast.AugAssign):
        targets.append((st.target, None))
      for t, v in targets:
        name = self_attr(t, sn)
        if name is None:
          continue
        via = 'setter' if name in self.cls.setters else 'field'
        out.append((name, n, v, via))
    return out

  def self_method_calls(self, f):
    """(method name, cfg node, call) for self.m(...) calls to methods of the class."""
    out = []
    sn = self.selfname(f)
    g = self.cfg(f)
    for n in g.nodes:
      for e in _node_exprs(n):
        for sub in walk_no_nested(e):
          if isinstance(sub, ast.Call):
            m = self_attr(sub.func, sn)
            if m is not None and m in self.cls.methods:
              out.append((m, n, sub))
    return out

  # -- loads ---------------------------------------------------------------------
  def direct_loads(self, f):
    """(name, ast node) for every `self.<name>` read in f (Load context)."""
    sn = self.selfname(f)
    out = []
    for sub in walk_no_nested(f.node):
      if isinstance(sub, ast.Attribute) and isinstance(sub.ctx, ast.Load):
        name = self_attr(sub, sn)
        if name is not None:
          out.append((name, sub))
    return out

  def reads(self, f, _stack=None):
    """Transitive set of *fields* read by f, looking through getters and
    methods of the same class. Class-qualified reads (`TBRMMDiagnostics._c`)
    are class constants and not included."""
    if f.qualname in self._reads:
      return self._reads[f.qualname]
    _stack = _stack or set()
    if f.qualname in _stack:
      return set()
    _stack = _stack | {f.qualname}
    out = set()
    for name, node in self.direct_loads(f):
      if name in self.cls.getters:
        out |= self.reads(self.cls.getters[name], _stack)
      elif name in self.cls.methods:
        out |= self.reads(self.cls.methods[name], _stack)
      else:
        out.add(name)
    if len(_stack) == 1:
      self._reads[f.qualname] = out
    return out

  def instance_fields(self):
    """Fields stored through self anywhere in the class."""
    out = set()
    for f in self.funcs.values():
      for name, n, v, via in self.stores(f):
        if via == 'field':
          out.add(name)
    return out


def _flatten(t):
  if isinstance(t, (ast.Tuple, ast.List)):
    r = []
    for e in t.elts:
      r += _flatten(e)
    return r
  if isinstance(t, ast.Starred):
    return _flatten(t.value)
  return [t]


def _node_exprs(n):
  st = n.ast
  if n.kind == 'test':
    return [n.expr]
  if n.kind == 'for':
    return [st.iter]
  if n.kind == 'with':
    return [i.context_expr for i in st.items]
  if n.kind in ('stmt', 'return', 'raisestmt') and st is not None and not isinstance(
      st, (ast.FunctionDef, ast.AsyncFunctionDef, ast.ClassDef)):
    return [st]
  return []
