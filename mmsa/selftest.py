"""Checker self-validation (thorough tier): AST-computed edits of the *current* tree.

Every "bad" variant must still parse and must make the property's check report a
new violation of the named rule; every "benign" twin (behaviour-preserving
refactor) must add no violation.  Variants are located through the AST (function
by qualified name, node by predicate), never by line or frozen text, so the
corpus follows refactors; a variant whose locator finds nothing is reported as
not applicable.  A failure here means the checker is broken (exit 2), never a
VIOLATION of the property.
"""
import ast
import os
import shutil
import tempfile
from concurrent.futures import ProcessPoolExecutor

from mmsa import core
from mmsa.core import norm

METH = 'matched_markets/methodology'


class NA(Exception):
  pass


# -- edit helpers -----------------------------------------------------------------
class Src:
  def __init__(self, root, module):
    self.path = os.path.join(root, METH, module + '.py')
    self.text = open(self.path).read()
    self.tree = ast.parse(self.text)
    for n in ast.walk(self.tree):
      for ch in ast.iter_child_nodes(n):
        ch._parent = n
    self.lines = self.text.split('\n')
    self.offs = [0]
    for l in self.lines:
      self.offs.append(self.offs[-1] + len(l.encode()) + 1)

  def func(self, qual):
    parts = qual.split('.')
    scope = self.tree
    for i, p in enumerate(parts):
      setter = p.endswith('@setter')
      p = p.replace('@setter', '')
      found = None
      for n in ast.iter_child_nodes(scope):
        if isinstance(n, (ast.FunctionDef, ast.ClassDef)) and n.name == p:
          if isinstance(n, ast.FunctionDef):
            decs = [norm(d) for d in n.decorator_list]
            is_setter = any(d.endswith('.setter') for d in decs)
            if setter != is_setter and i == len(parts) - 1 and isinstance(scope, ast.ClassDef) and any(
                isinstance(m, ast.FunctionDef) and m.name == p and m is not n for m in scope.body):
              continue
          found = n
          break
      if found is None:
        # nested function anywhere below
        for n in ast.walk(scope):
          if isinstance(n, ast.FunctionDef) and n.name == p:
            found = n
            break
      if found is None:
        raise NA('no %s in %s' % (qual, self.path))
      scope = found
    return scope

  def seg(self, node):
    b = self.text.encode()
    s = self.offs[node.lineno - 1] + node.col_offset
    e = self.offs[node.end_lineno - 1] + node.end_col_offset
    return s, e

  def replace(self, node, new):
    b = self.text.encode()
    s, e = self.seg(node)
    self.text = (b[:s] + new.encode() + b[e:]).decode()

  def save(self):
    ast.parse(self.text)     # must still compile
    open(self.path, 'w').write(self.text)


def find(fn, pred, which=0):
  hits = [n for n in ast.walk(fn) if pred(n)]
  hits.sort(key=lambda n: (n.lineno, n.col_offset))
  if len(hits) <= which:
    raise NA('locator found %d nodes' % len(hits))
  return hits[which]


def edit(module, qual, pred, new, which=0):
  """Replace the source of the located node by new(node_source, node) (or a string)."""
  def apply(root):
    s = Src(root, module)
    fn = s.func(qual) if qual else s.tree
    n = find(fn, pred, which)
    old = ast.get_source_segment(s.text, n)
    s.replace(n, new(old, n) if callable(new) else new)
    s.save()
  return apply


def delete_stmt(module, qual, pred, which=0):
  return edit(module, qual, lambda n: isinstance(n, ast.stmt) and pred(n), 'pass', which)


def multi(*edits):
  def apply(root):
    for e in edits:
      e(root)
  return apply


def txt(n):
  return norm(n)


def is_assign_to(target):
  return lambda n: isinstance(n, ast.Assign) and any(norm(t) == target for t in n.targets)


def is_call(name):
  return lambda n: isinstance(n, ast.Call) and norm(n.func) == name


def cmp_with(op, left=None, contains=None):
  def p(n):
    if not (isinstance(n, ast.Compare) and len(n.ops) == 1 and isinstance(n.ops[0], op)):
      return False
    if left is not None and norm(n.left) != left:
      return False
    if contains is not None and contains not in norm(n):
      return False
    return True
  return p


def flip(old_op, new_op):
  return lambda src, n: src.replace(old_op, new_op, 1)


MMQ = 'TBRMatchedMarkets.'
DG = 'TBRMMDiagnostics.'


def corpus():
  """(property, name, kind, rule-prefix or None, edit)"""
  V = []
  add = lambda *a: V.append(a)
  mm, dg, hd, ge, md, dp, ut, tb, ti, td, sc, ds, cc = ('tbrmatchedmarkets', 'tbrmmdiagnostics', 'heapdict', 'geoeligibility', 'tbrmmdata',
                                                       'tbrmmdesignparameters', 'utils', 'tbr', 'tbr_iroas', 'tbrdiagnostics', 'tbrmmscore', 'tbrmmdesign', 'common_classes')
  # ---- C08
  for fld in ('_corr', '_required_impact', '_pretestfit', '_aatest', '_bbtest', '_dwtest', '_tests_ok'):
    add('C08', 'delete reset of %s in the x setter' % fld, 'bad', 'R2/must-reset', delete_stmt(dg, DG + 'x@setter', is_assign_to('self.' + fld)))
  add('C08', 'y setter no longer clears x', 'bad', 'R2/must-reset', delete_stmt(dg, DG + 'y@setter', is_assign_to('self.x')))
  add('C08', 'lru_cached helper reads instance state', 'bad', 'R3/cached-method-pure',
      edit(dg, DG + '_brownian_bridge_bounds', lambda n: isinstance(n, ast.Attribute) and norm(n) == 'TBRMMDiagnostics._bb_bound', 'self._x_mean'))
  add('C08', 'benign: local variable renamed in the x setter', 'benign', None,
      edit(dg, DG + 'corr', lambda n: isinstance(n, ast.Return) and norm(n) == 'return self._corr', 'result = self._corr\n    return result'))
  add('C08', 'value cached per instance ignores one of its arguments', 'bad', 'R3/memo-key',
      edit(dg, DG + '_impact_estimate', lambda n: isinstance(n, ast.Return), lambda s, n: 'if getattr(self, "_term_memo", None) is None or self._term_memo[0] != (n_test, flevel):\n      self._term_memo = ((n_test, flevel), term)\n    return self._term_memo[1]'))
  # ---- C14
  add('C14', 'push: < becomes <=', 'bad', 'R1/top-k', edit(hd, 'HeapDict.push', cmp_with(ast.Lt), flip('<', '<=')))
  add('C14', 'push: heappushpop becomes heapreplace', 'bad', 'R1/top-k', edit(hd, 'HeapDict.push', lambda n: isinstance(n, ast.Attribute) and n.attr == 'heappushpop', 'heapq.heapreplace'))
  add('C14', 'get_result: ascending order', 'bad', 'R3/snapshot', edit(hd, 'HeapDict.get_result', is_call('heapq.nlargest'), lambda s, n: 'sorted(q)'))
  add('C14', 'get_result returns the internal lists', 'bad', 'R3/snapshot', edit(hd, 'HeapDict.get_result', is_call('heapq.nlargest'), lambda s, n: 'q'))
  add('C14', 'heap capacity n_designs - 1', 'bad', 'R4/search', edit(mm, MMQ + 'exhaustive_search', lambda n: isinstance(n, ast.Attribute) and norm(n) == 'self.parameters.n_designs',
                                                                     'self.parameters.n_designs - 1'))
  add('C14', 'retrieval reversed', 'bad', 'R4/order', edit(mm, MMQ + 'search_results', lambda n: isinstance(n, ast.For), lambda s, n: s.replace('in design:', 'in reversed(design):', 1)))
  add('C14', 'TBRMMDesign.__lt__ uses <=', 'bad', 'R4/order', edit(ds, 'TBRMMDesign.__lt__', cmp_with(ast.Lt), flip('<', '<=')))
  add('C14', 'benign: sorted(q, reverse=True)', 'benign', None, edit(hd, 'HeapDict.get_result', is_call('heapq.nlargest'), lambda s, n: 'sorted(q, reverse=True)'))
  add('C14', 'benign: __lt__ written as other.score > self.score', 'benign', None,
      edit(ds, 'TBRMMDesign.__lt__', cmp_with(ast.Lt), lambda s, n: 'other.score > self.score'))
  # ---- C16
  add('C16', 'class ct = c & t (forgets not_x)', 'bad', 'R1/partition', edit(ge, 'GeoAssignments.__init__', lambda n: isinstance(n, ast.Assign) and norm(n.targets[0]) == 'self.ct',
                                                                            lambda s, n: 'self.ct = c & t'))
  add('C16', 'zero-row guard deleted', 'bad', 'R2/validation', delete_stmt(ge, 'GeoEligibility.__init__', lambda n: isinstance(n, ast.If) and 'zero_row' in norm(n.test)))
  add('C16', 'duplicate-id guard raises KeyError', 'bad', 'R2/validation',
      edit(ge, 'GeoEligibility.__init__', lambda n: isinstance(n, ast.Name) and n.id == 'ValueError' and 'duplicate values' in norm(n._parent), 'KeyError'))
  add('C16', 'reset_index before narrowing', 'bad', 'R3/selection',
      edit(ge, 'GeoEligibility.get_eligible_assignments', lambda n: isinstance(n, ast.If) and norm(n.test) == 'geos is not None',
           lambda s, n: 'if indices and geos is not None:\n      df = df.reset_index()\n    if geos is not None:\n      df = df.loc[geos]\n    elif indices:\n      raise ValueError("no geos")'))
  add('C16', 'revert fix: truthiness test of geos', 'bad', 'R4/none-vs-empty',
      edit(ge, 'GeoEligibility.get_eligible_assignments', lambda n: isinstance(n, ast.Compare) and norm(n) == 'geos is not None', 'geos'))
  add('C16', 'treatment set built from the control column', 'bad', 'R3/selection',
      edit(ge, 'GeoEligibility.get_eligible_assignments', lambda n: isinstance(n, ast.Constant) and n.value == 'treatment', "'control'"))
  # narrowing skipped under a condition that cannot see the order of the request / under one that can
  add('C16', 'narrowing skipped when the request covers the table (set and length only)', 'bad', 'R3/selection',
      edit(ge, 'GeoEligibility.get_eligible_assignments', lambda n: isinstance(n, ast.If) and norm(n.test) == 'geos is not None',
           lambda s, n: 'if geos is not None:\n      if not (len(geos) == len(df.index) and set(geos) == set(df.index)):\n        df = df.loc[geos]\n      if indices:\n        df = df.reset_index()\n    elif indices:\n      raise ValueError("no geos")'))
  add('C16', 'columns read by position while the constructor keeps the caller\'s column order', 'bad', 'R3/selection',
      multi(edit(ge, 'GeoEligibility.get_eligible_assignments', is_assign_to('c'), lambda s, n: "c = set(df.index[df.to_numpy()[:, 0] == 1])"),
            edit(ge, 'GeoEligibility.__init__', lambda n: isinstance(n, ast.Assign) and norm(n).startswith('df = df.loc[:, all_column_names]'),
                 lambda s, n: 'df = df[df.columns.intersection(all_column_names)]')))
  add('C16', 'benign: one column read by position, the constructor orders the columns', 'nonviolation', None,
      edit(ge, 'GeoEligibility.get_eligible_assignments', is_assign_to('c'), lambda s, n: "c = set(df.index[df.to_numpy()[:, 0] == 1])"))
  add('C16', 'benign: narrowing skipped only when the request is the table order', 'nonviolation', None,
      edit(ge, 'GeoEligibility.get_eligible_assignments', lambda n: isinstance(n, ast.If) and norm(n.test) == 'geos is not None',
           lambda s, n: 'if geos is not None:\n      if not list(geos) == list(df.index):\n        df = df.loc[geos]\n      if indices:\n        df = df.reset_index()\n    elif indices:\n      raise ValueError("no geos")'))
  # canonical ids in value form: uniqueness on raw ids while the stored index is converted / on converted ids
  add('C16', 'benign: class formula reordered', 'benign', None, edit(ge, 'GeoAssignments.__init__', lambda n: isinstance(n, ast.Assign) and norm(n.targets[0]) == 'self.cx',
                                                                    lambda s, n: 'self.cx = x & c & not_t'))
  # ---- C17
  add('C17', 'n_test bound operator > instead of >=', 'bad', 'R1/table', edit(dp, 'TBRMMDesignParameters.__post_init__', lambda n: isinstance(n, ast.Call) and "'n_test'" in norm(n),
                                                                             lambda s, n: s.replace("'>='", "'>'")))
  add('C17', 'rho_max lower bound 0.8', 'bad', 'R1/table', edit(dp, 'TBRMMDesignParameters.__post_init__', lambda n: isinstance(n, ast.Call) and "'rho_max'" in norm(n),
                                                                 lambda s, n: s.replace('0.9', '0.8')))
  add('C17', 'validation of n_designs deleted', 'bad', 'R1/table', delete_stmt(dp, 'TBRMMDesignParameters.__post_init__', lambda n: isinstance(n, ast.Expr) and "'n_designs'" in norm(n)))
  add('C17', 'default of n_pretest_max changed', 'bad', 'R1/table', edit(dp, 'TBRMMDesignParameters', lambda n: isinstance(n, ast.AnnAssign) and norm(n.target) == 'n_pretest_max',
                                                                        lambda s, n: s.replace('90', '60')))
  add('C17', 'integer bound written as float (drops integrality)', 'bad', 'R1/table', edit(dp, 'TBRMMDesignParameters', lambda n: isinstance(n, ast.Assign) and norm(n.targets[0]) == '_N_TEST_MIN',
                                                                                         lambda s, n: '_N_TEST_MIN = 1.0'))
  add('C17', 'revert fix: int(value) != value on an unbounded value', 'bad', 'R3/only-ValueError',
      edit(dp, 'TBRMMDesignParameters._test_value_vs_threshold', lambda n: isinstance(n, ast.If) and 'is_integer' in norm(n.test),
           lambda s, n: "if isinstance(bound, int) and int(value) != value:\n      raise ValueError('{} must be an integer'.format(attr))"))
  add('C17', 'comparison through the inverse operator (NaN passes)', 'bad', 'R2/helper',
      edit(dp, 'TBRMMDesignParameters._test_value_vs_threshold', lambda n: isinstance(n, ast.Assign) and norm(n.targets[0]) == 'test_ok',
           lambda s, n: "test_ok = specified and not self._test_functions[self._inverse_op[op]](value, bound)"))
  add('C12', 'a validated range is stored after rounding it outward on a fixed grid', 'bad', 'R6/stored-parameters',
      edit(dp, 'TBRMMDesignParameters._test_range', lambda n: isinstance(n, ast.Expr) and norm(n).startswith('setattr(self, attr, (int(lower_range)'),
           lambda s, n: 'setattr(self, attr, (math.floor(lower_range * 100) / 100, math.ceil(upper_range * 100) / 100))'))
  add('C12', 'benign: the stored integer range is named first', 'benign', None,
      edit(dp, 'TBRMMDesignParameters._test_range', lambda n: isinstance(n, ast.Expr) and norm(n).startswith('setattr(self, attr, (int(lower_range)'),
           lambda s, n: 'stored_range = (int(lower_range), int(upper_range))\n          setattr(self, attr, stored_range)'))
  add('C17', 'upper end of an integer range is no longer tested for integrality', 'bad', 'R2/helper',
      edit(dp, 'TBRMMDesignParameters._test_range', lambda n: isinstance(n, ast.BoolOp) and isinstance(n.op, ast.Or) and 'int(upper_range) != upper_range' in norm(n),
           'int(lower_range) != lower_range'))
  add('C17', 'benign: integrality of the two ends spelled with is_integer()', 'benign', None,
      edit(dp, 'TBRMMDesignParameters._test_range', lambda n: isinstance(n, ast.BoolOp) and isinstance(n.op, ast.Or) and 'int(upper_range) != upper_range' in norm(n),
           'not float(lower_range).is_integer() or not float(upper_range).is_integer()'))
  add('C17', 'benign: the two ends tested by one quantified literal all(int(x) == x for x in value)', 'benign', None,
      edit(dp, 'TBRMMDesignParameters._test_range', lambda n: isinstance(n, ast.BoolOp) and isinstance(n.op, ast.Or) and 'int(upper_range) != upper_range' in norm(n),
           'not all(int(x) == x for x in value)'))
  add('C17', 'quantified integrality test with any() in place of all(): one integer end suffices', 'bad', 'R2/helper',
      edit(dp, 'TBRMMDesignParameters._test_range', lambda n: isinstance(n, ast.BoolOp) and isinstance(n.op, ast.Or) and 'int(upper_range) != upper_range' in norm(n),
           'not any(int(x) == x for x in value)'))
  add('C17', 'benign: integrality of a bounded value in positive polarity (not int(value) == value)', 'benign', None,
      edit(dp, 'TBRMMDesignParameters._test_value_within_bounds', lambda n: isinstance(n, ast.Compare) and norm(n) == 'int(value) != value',
           '(not int(value) == value)'))
  add('C17', 'integrality test of a bounded value with the wrong polarity (integers rejected, fractions pass)', 'bad', 'R2/helper',
      edit(dp, 'TBRMMDesignParameters._test_value_within_bounds', lambda n: isinstance(n, ast.Compare) and norm(n) == 'int(value) != value',
           'int(value) == value'))
  add('C17', 'benign: class constant renamed', 'benign', None,
      multi(edit(dp, 'TBRMMDesignParameters', lambda n: isinstance(n, ast.Assign) and norm(n.targets[0]) == '_MIN_IROAS', lambda s, n: '_IROAS_MIN = 0.0'),
            edit(dp, 'TBRMMDesignParameters.__post_init__', lambda n: isinstance(n, ast.Attribute) and norm(n) == 'self._MIN_IROAS', 'self._IROAS_MIN')))
  # ---- C20
  add('C20', 'entries parsed with a regular expression that need not reach the end of the entry', 'bad', 'R4/parse',
      edit(ut, 'find_days_to_exclude', lambda n: isinstance(n, ast.Assign) and norm(n.targets[0]) == 'tmp',
           lambda s, n: "tmp = [p_ for p_ in re.match(r'\\s*(\\d{4}/\\d{1,2}/\\d{1,2})\\s*(?:-\\s*(\\d{4}/\\d{1,2}/\\d{1,2}))?', x).groups() if p_]"))
  add('C20', 'benign: the same expression anchored at the end', 'nonviolation', None,
      edit(ut, 'find_days_to_exclude', lambda n: isinstance(n, ast.Assign) and norm(n.targets[0]) == 'tmp',
           lambda s, n: "tmp = [p_ for p_ in re.fullmatch(r'\\s*(\\d{4}/\\d{1,2}/\\d{1,2})\\s*(?:-\\s*(\\d{4}/\\d{1,2}/\\d{1,2}))?\\s*', x).groups() if p_]"))
  add('C20', 'return without de-duplication', 'bad', 'R1/dedup', edit(ut, 'expand_time_windows', lambda n: isinstance(n, ast.Return), lambda s, n: 'return days_exclude'))
  add('C20', "date_range(..., inclusive='left')", 'bad', 'R2/closed-daily-range', edit(ut, 'expand_time_windows', is_call('pd.date_range'), lambda s, n: s.replace("freq='D'", "freq='D', inclusive='left'")))
  add('C20', 'handler raises TypeError', 'bad', 'R4/ValueError', edit(ut, 'find_days_to_exclude', lambda n: isinstance(n, ast.Name) and n.id == 'ValueError' and isinstance(n._parent, ast.Call)
                                                                      and 'valid date' in norm(n._parent), 'TypeError'))
  add('C20', 'second element of a range ignored', 'bad', 'R4/parse', edit(ut, 'find_days_to_exclude', lambda n: isinstance(n, ast.Subscript) and norm(n) == 'tmp[1]', 'tmp[0]'))
  add('C20', 'TimeWindow ordering guard uses >= (rejects single days)', 'bad', 'R4/ordering-guard', edit(cc, 'TimeWindow.__post_init__', cmp_with(ast.Gt), flip('>', '>=')))
  add('C20', 'entries parsed with an unanchored regular expression', 'bad', 'R4/parse',
      edit(ut, 'find_days_to_exclude', lambda n: isinstance(n, ast.Assign) and norm(n.targets[0]) == 'tmp',
           lambda s, n: "m_ = re.match(r'\\s*(\\d{4}/\\d{1,2}/\\d{1,2})\\s*(?:-\\s*(\\d{4}/\\d{1,2}/\\d{1,2})\\s*)?', x)\n    if m_ is None:\n      raise ValueError('bad entry')\n    tmp = [g_ for g_ in m_.groups() if g_ is not None]"))
  add('C20', 'benign: sorted(set(...))', 'benign', None, edit(ut, 'expand_time_windows', lambda n: isinstance(n, ast.Return), lambda s, n: 'return sorted(set(days_exclude))'))
  # ---- C19
  add('C19', 'arms split by a Boolean key (rows of other groups fall into the control arm)', 'bad', 'R4/aggregation',
      edit(td, 'TBRDiagnostics._create_analysis_data', lambda n: isinstance(n, ast.Assign) and norm(n.targets[0]) == 'self._analysis_data',
           lambda s, n: 'self._analysis_data = data[columns[3]].groupby([data[columns[0]], data[columns[1]], (self._data[self._df_names.group] == self._groups.treatment).rename(columns[2])]).sum().unstack(columns[2]).rename(columns={False: "x", True: "y"})'))
  add('C19', 'report a different list than removed', 'bad', 'R2/report-equals-removal',
      edit(td, 'TBRDiagnostics.fit', lambda n: isinstance(n, ast.Assign) and norm(n.targets[0]) == "self._diagnostics['noisy_geos']", lambda s, n: "self._diagnostics['noisy_geos'] = sorted(remove_geos or [])[:1]"))
  add('C19', 'reported geos removed by row label instead of by the mask (a non-unique index loses more rows)', 'bad', 'R2/report-equals-removal',
      edit(td, 'TBRDiagnostics.fit', lambda n: isinstance(n, ast.Assign) and norm(n) == 'self._data = self._data[~exclude]',
           lambda s, n: 'self._data = self._data.drop(index=self._data.index[exclude])'))
  add('C19', 'benign: the kept rows are selected with .loc and the negated mask', 'nonviolation', None,
      edit(td, 'TBRDiagnostics.fit', lambda n: isinstance(n, ast.Assign) and norm(n) == 'self._data = self._data[~exclude]',
           lambda s, n: 'self._data = self._data.loc[~exclude]'))
  add('C19', 'mask not negated', 'bad', 'R2/report-equals-removal', edit(td, 'TBRDiagnostics.fit', lambda n: isinstance(n, ast.UnaryOp) and isinstance(n.op, ast.Invert) and norm(n.operand) == 'exclude', 'exclude'))
  add('C19', 'second _create_analysis_data() removed', 'bad', 'R3/reaggregate', delete_stmt(td, 'TBRDiagnostics.fit', lambda n: isinstance(n, ast.Expr) and norm(n) == 'self._create_analysis_data()', 1))
  add('C19', 'in-place edit of the caller frame', 'bad', 'R1/ownership', edit(td, 'TBRDiagnostics.fit', lambda n: isinstance(n, ast.Assign) and norm(n.targets[0]) == 'self._data' and 'copy' in norm(n.value),
                                                                             lambda s, n: 'self._data = data_frame'))
  add('C19', 'revert fix: labels written in place through .loc', 'bad', 'R5/inplace-dtype',
      edit(td, 'TBRDiagnostics._create_analysis_data', lambda n: isinstance(n, ast.Assign) and norm(n.value) == 'new_group', lambda s, n: 'data.loc[:, self._df_names.group] = new_group'))
  add('C19', 'pivot aggregates with the mean', 'bad', 'R4/aggregation', edit(td, 'TBRDiagnostics._create_analysis_data', lambda n: isinstance(n, ast.Attribute) and norm(n) == 'np.sum', 'np.mean'))
  # ---- C10
  add('C10', 'store into the parameter object', 'bad', 'R1/parameters-read-only',
      edit(mm, MMQ + 'count_max_designs', lambda n: isinstance(n, ast.Assign) and norm(n.targets[0]) == 'n_designs', lambda s, n: 'self.parameters.n_designs = 1\n    n_designs = 0'))
  add('C10', 'revert fix: retained designs rewritten in place', 'bad', 'R3/retrieval-pure',
      edit(mm, MMQ + 'search_results', lambda n: isinstance(n, ast.Expr) and 'output_result.append' in norm(n),
           lambda s, n: 'd.treatment_geos = treatment_geos\n        d.control_geos = control_geos\n        output_result.append(d)'))
  add('C10', 'query caches its answer on self', 'bad', 'R2/query-purity', edit(mm, MMQ + 'geos_within_constraints', lambda n: isinstance(n, ast.Return), lambda s, n: 'self._geos_cache = geos\n    return geos'))
  add('C10', 'index install made conditional', 'bad', 'R2/index-install', edit(mm, MMQ + 'geo_assignments', is_assign_to('self.data.geo_index'),
                                                                              lambda s, n: 'if geo_index != self.data.geo_index:\n      self.data.geo_index = geo_index'))
  add('C10', 'input frame edited before the copy', 'bad', 'R5/inputs', delete_stmt(md, 'TBRMMData.__init__', lambda n: isinstance(n, ast.Assign) and norm(n) == 'df = df.copy()'))
  add('C10', 'benign: local copy of the parameters is modified', 'benign', None,
      edit(mm, MMQ + 'treatment_group_size_range', lambda n: isinstance(n, ast.Assign) and norm(n.targets[0]) == 'treatment_geos_range',
           lambda s, n: 'local_par = dataclasses.replace(self.parameters)\n    treatment_geos_range = local_par.treatment_geos_range'))
  # conditional copy: the store writes the caller's object on the path that skips the copy (and the twin that always copies)
  add('C10', 'parameter object written through a conditionally taken copy', 'bad', 'R1/parameters-read-only',
      edit(mm, MMQ + 'treatment_group_size_range', lambda n: isinstance(n, ast.Assign) and norm(n.targets[0]) == 'treatment_geos_range',
           lambda s, n: 'par_ = self.parameters\n    if par_.treatment_geos_range is None:\n      par_ = dataclasses.replace(par_)\n    par_.n_designs = par_.n_designs\n    treatment_geos_range = par_.treatment_geos_range'))
  add('C10', 'benign: parameter copy is always taken before the store', 'benign', None,
      edit(mm, MMQ + 'treatment_group_size_range', lambda n: isinstance(n, ast.Assign) and norm(n.targets[0]) == 'treatment_geos_range',
           lambda s, n: 'par_ = self.parameters\n    par_ = dataclasses.replace(par_)\n    par_.n_designs = par_.n_designs\n    treatment_geos_range = par_.treatment_geos_range'))
  # ---- C09
  add('C09', 'rows taken by an index array without integer dtype (empty geo list -> IndexError)', 'bad', 'R1i/index-array',
      edit(md, 'TBRMMData.geo_index@setter', is_assign_to('self._array'),
           lambda s, n: 'self._array = self.df.to_numpy()[np.array([list(self.df.index).index(g_) for g_ in geos])]'))
  add('C09', 'benign: index array with dtype=int', 'benign', None,
      edit(md, 'TBRMMData.geo_index@setter', is_assign_to('self._array'),
           lambda s, n: 'self._array = self.df.to_numpy()[np.array([list(self.df.index).index(g_) for g_ in geos], dtype=int)]'))
  add('C09', 'revert fix: list(range).pop()', 'bad', 'R1b/empty-container',
      edit(mm, MMQ + 'exhaustive_search', lambda n: isinstance(n, ast.IfExp) and 'treatment_group_sizes' in norm(n), lambda s, n: 'list(self.treatment_group_size_range()).pop()'))
  add('C09', 'revert fix: empty-group guard of design_within_constraints removed', 'bad', 'R1c/division',
      delete_stmt(mm, MMQ + 'design_within_constraints', lambda n: isinstance(n, ast.If) and norm(n.test) == 'not treatment_geos or not control_geos'))
  add('C09', 'empty-treatment guard of control_group_generator removed', 'bad', 'R1c/division',
      delete_stmt(mm, MMQ + 'control_group_generator', lambda n: isinstance(n, ast.If) and norm(n.test) == 'not treatment_group'))
  add('C09', 'raise KeyError', 'bad', 'R1a/raise-sites', edit(mm, MMQ + 'treatment_group_generator', lambda n: isinstance(n, ast.Name) and n.id == 'ValueError', 'KeyError'))
  add('C09', 'k = k + 1 dropped', 'bad', 'R2/termination', delete_stmt(mm, MMQ + 'greedy_search', lambda n: isinstance(n, ast.Assign) and norm(n) == 'k = k + 1'))
  add('C09', 'strict improvement test becomes >=', 'bad', 'R2/termination',
      edit(mm, MMQ + 'greedy_search', lambda n: isinstance(n, ast.Compare) and norm(n) == 'current_score > TBRMMScore(current_design)', lambda s, n: s.replace('>', '>=', 1)))
  add('C09', 'aggregate_geo_share returns a Python float', 'bad', 'R1c/division', edit(md, 'TBRMMData.aggregate_geo_share', lambda n: isinstance(n, ast.Return),
                                                                                       lambda s, n: 'return float(self._array_geo_share[list(geo_indices)].sum())'))
  add('C09', 'revert fix: placeholder score evaluated', 'bad', 'R1f/optional-deref',
      edit(mm, MMQ + 'greedy_search', lambda n: isinstance(n, ast.Call) and norm(n.func) == 'tbrmmscore.Scoring', lambda s, n: s.replace('tbrmmscore.Scoring(', 'tmp_score.score._replace(', 1)))
  add('C09', 'None guard of required_impact removed', 'bad', 'R1f/optional-deref',
      delete_stmt(dg, DG + 'required_impact', lambda n: isinstance(n, ast.If) and norm(n.test) == 'corr is None'))
  add('C09', 'TBRMMScore no longer rejects a missing control series', 'bad', 'R1f/optional-deref',
      delete_stmt(sc, 'TBRMMScore.__post_init__', lambda n: isinstance(n, ast.If) and norm(n.test) == 'self.diag.x is None'))
  add('C09', 'x-None guard of bbtest removed', 'bad', 'R1f/optional-deref', delete_stmt(dg, DG + 'bbtest', lambda n: isinstance(n, ast.If) and norm(n.test) == 'self._x is None'))
  add('C09', 'loop guard without the pending-matching flag', 'bad', 'R1d/dict-keys',
      edit(mm, MMQ + 'greedy_search', lambda n: isinstance(n, ast.While), lambda s, n: s.replace('while (k < max_treatment_size) | (needs_matching):', 'while k < max_treatment_size:', 1)))
  add('C09', 'pop without default', 'bad', 'R1d/dict-keys', edit(mm, MMQ + 'greedy_search', lambda n: isinstance(n, ast.Call) and norm(n) == 'group_star_ctl.pop(kappa_0, None)', 'group_star_ctl.pop(kappa_0)'))
  add('C09', 'next treatment group stored after the counter advanced', 'bad', 'R1d/dict-keys',
      edit(mm, MMQ + 'greedy_search', lambda n: isinstance(n, ast.Assign) and norm(n.targets[0]) == 'group_star_trt[k + 1]', lambda s, n: 'group_star_trt[k + 2] = group_trt'))
  add('C09', 'control table read while matching is pending', 'bad', 'R1d/dict-keys',
      edit(mm, MMQ + 'greedy_search', lambda n: isinstance(n, ast.Assign) and norm(n.targets[0]) == 'r_control', lambda s, n: s.replace('group_ctl | group_star_trt[k]', 'group_star_ctl[k] | group_star_trt[k]')))
  add('C09', 'revert fix: integer-valued floats not converted to int', 'bad', 'R1g/integer-parameters',
      delete_stmt(dp, 'TBRMMDesignParameters._test_value_vs_threshold', lambda n: isinstance(n, ast.If) and norm(n.test) == 'isinstance(bound, int)'))
  add('C09', 'benign: guard written as len(...) == 0', 'benign', None,
      edit(mm, MMQ + 'design_within_constraints', lambda n: isinstance(n, ast.BoolOp) and norm(n) == 'not treatment_geos or not control_geos',
           lambda s, n: 'len(treatment_geos) == 0 or len(control_geos) == 0'))
  # ---- C01
  add('C01', 'ct dropped from the fixed control geos', 'bad', 'R2/generator', edit(mm, MMQ + 'control_group_generator', is_assign_to('fixed_control_geos'), lambda s, n: 'fixed_control_geos = self.geo_assignments.c_fixed'))
  add('C01', 'possible control geos not reduced by the treatment group', 'bad', 'R2/generator', edit(mm, MMQ + 'control_group_generator', is_assign_to('possible_control_geos'),
                                                                                                   lambda s, n: 'possible_control_geos = self.geo_assignments.c'))
  add('C01', 'r_unassigned without & x', 'bad', 'R3/greedy', edit(mm, MMQ + 'greedy_search', is_assign_to('r_unassigned'), lambda s, n: 'r_unassigned = group_ctl - group_star_trt[k]'))
  add('C01', 'r_treatment = all - T', 'bad', 'R3/greedy', edit(mm, MMQ + 'greedy_search', is_assign_to('r_treatment'), lambda s, n: 'r_treatment = self.geo_assignments.all - group_star_trt[k]'))
  add('C01', 'must-include not added to the admitted set', 'bad', 'R4/admitted', edit(mm, MMQ + 'geos_within_constraints', lambda n: isinstance(n, ast.Assign) and norm(n.targets[0]) == 'geos' and 'assignable' in norm(n.value),
                                                                                      lambda s, n: 'geos = (self.data.assignable - geos_exceed_size)'))
  add('C01', 'revert fix: truncation drops must-include geos', 'bad', 'R4/admitted',
      edit(mm, MMQ + 'geos_within_constraints', lambda n: isinstance(n, ast.Assign) and norm(n.targets[0]) == 'geos' and 'n_geos_free' in norm(n.value), lambda s, n: 'geos = set(geos_in_order[:n_geos_max])'))
  add('C01', 'treatment IDs mapped from the control indices', 'bad', 'R5/index-to-id', edit(mm, MMQ + 'search_results', lambda n: isinstance(n, ast.Attribute) and norm(n) == 'd.treatment_geos', 'd.control_geos'))
  add('C01', 'assignable = all (keeps must-exclude geos)', 'bad', 'R4/admitted', edit(md, 'TBRMMData.__init__', is_assign_to('assignable'), lambda s, n: 'assignable = geo_assignments.all'))
  dsn = 'tbrmmdesign'
  is_if_on = lambda t_: (lambda n: isinstance(n, ast.If) and norm(n.test) == t_)
  add('C01', 'design constructor: empty-control guard dropped', 'bad', 'R1/construction', delete_stmt(dsn, 'TBRMMDesign.__post_init__', is_if_on('not self.control_geos')))
  add('C01', 'design constructor: emptiness guard requires both groups empty', 'bad', 'R1/construction',
      multi(edit(dsn, 'TBRMMDesign.__post_init__', lambda n: isinstance(n, ast.If) and norm(n.test) == 'not self.treatment_geos', lambda s_, n: s_.replace('not self.treatment_geos', 'not self.treatment_geos and not self.control_geos')),
            delete_stmt(dsn, 'TBRMMDesign.__post_init__', is_if_on('not self.control_geos'))))
  add('C01', 'design constructor: overlap test inverted', 'bad', 'R1/construction',
      edit(dsn, 'TBRMMDesign.__post_init__', lambda n: isinstance(n, ast.If) and norm(n.test) == 'overlapping_geos', lambda s_, n: s_.replace('if overlapping_geos:', 'if not overlapping_geos:', 1)))
  add('C01', 'benign: design constructor tests sizes and disjointness', 'benign', None,
      multi(edit(dsn, 'TBRMMDesign.__post_init__', lambda n: isinstance(n, ast.If) and norm(n.test) == 'not self.treatment_geos', lambda s_, n: s_.replace('not self.treatment_geos', 'len(self.treatment_geos) < 1')),
            edit(dsn, 'TBRMMDesign.__post_init__', lambda n: isinstance(n, ast.If) and norm(n.test) == 'not self.control_geos', lambda s_, n: s_.replace('not self.control_geos', '0 == len(self.control_geos)')),
            edit(dsn, 'TBRMMDesign.__post_init__', lambda n: isinstance(n, ast.If) and norm(n.test) == 'overlapping_geos', lambda s_, n: s_.replace('if overlapping_geos:', 'if not self.control_geos.isdisjoint(self.treatment_geos):', 1))))
  add('C01', 'benign: set difference spelled as a method', 'benign', None, edit(mm, MMQ + 'control_group_generator', is_assign_to('varying_control_geos'),
                                                                               lambda s, n: 'varying_control_geos = possible_control_geos.difference(fixed_control_geos)'))
  # ---- C02
  add('C02', '_constraint_not_satisfied: < becomes <=', 'bad', 'R1/inclusive', edit(mm, MMQ + '_constraint_not_satisfied', cmp_with(ast.Lt), flip('<', '<=')))
  add('C02', 'geo ratio lower test strict', 'bad', 'R1/inclusive', edit(mm, MMQ + '_control_group_size_generator', cmp_with(ast.GtE), flip('>=', '>')))
  add('C02', 'size range stop without + 1', 'bad', 'R1/inclusive', edit(mm, MMQ + 'treatment_group_size_range', lambda n: isinstance(n, ast.Return), lambda s, n: 'return range(n_geos_from, n_geos_to)'))
  add('C02', 'control-size block of design_within_constraints dropped', 'bad', 'R2/must-pass',
      delete_stmt(mm, MMQ + 'design_within_constraints', lambda n: isinstance(n, ast.If) and norm(n.test) == 'self.parameters.control_geos_range is not None'))
  add('C02', 'greedy final filter removed', 'bad', 'R2/must-pass', edit(mm, MMQ + 'greedy_search', lambda n: isinstance(n, ast.If) and norm(n.test) == 'self.design_within_constraints(group_star_trt[k], group_star_ctl[k])',
                                                                        lambda s, n: s.replace('if self.design_within_constraints(group_star_trt[k], group_star_ctl[k]):', 'if True:', 1)))
  add('C02', 'lower ratio bound 1 - tol', 'bad', 'R1/predicate', edit(mm, MMQ + 'design_within_constraints', lambda n: isinstance(n, ast.BinOp) and norm(n) == '1 / (1 + self.parameters.geo_ratio_tolerance)',
                                                                      lambda s, n: '1 - self.parameters.geo_ratio_tolerance'))
  add('C02', 'budget bounds swapped', 'bad', 'R1/predicate', edit(mm, MMQ + 'exhaustive_search', lambda n: isinstance(n, ast.Call) and norm(n.func) == 'self._constraint_not_satisfied',
                                                                 lambda s, n: 'self._constraint_not_satisfied(\n              req_budget, budget_range[1], budget_range[0])'))
  add('C02', 'revert fix: greedy results not budget-checked', 'bad', 'R2/must-pass',
      delete_stmt(mm, MMQ + 'greedy_search', lambda n: isinstance(n, ast.If) and 'budget_range is not None' in norm(n.test) and isinstance(n.body[0], ast.Continue), 2))
  add('C02', 'benign: helper written as not (lo <= v <= hi)', 'benign', None,
      edit(mm, MMQ + '_constraint_not_satisfied', lambda n: isinstance(n, ast.Return), lambda s, n: 'return not (constraint_lower <= parameter_value <= constraint_upper)'))
  add('C02', 'benign: volume ratio inverted', 'benign', None,
      edit(mm, MMQ + 'exhaustive_search', is_assign_to('xy_share'), lambda s, n: 'xy_share = treatment_share / control_share'))
  # ---- C03
  add('C03', 'break after the first control group', 'bad', 'R1/full-iteration', edit(mm, MMQ + 'exhaustive_search', lambda n: isinstance(n, ast.Expr) and norm(n) == 'results.push(0, design)',
                                                                                    lambda s, n: 'results.push(0, design)\n          break'))
  add('C03', 'pattern appended under the < min branch', 'bad', 'R3/pruning', edit(mm, MMQ + 'exhaustive_search', lambda n: isinstance(n, ast.If) and norm(n.test) == 'req_budget < budget_range[0]',
                                                                                  lambda s, n: s.replace('continue', 'skip_treatment_geo_patterns.append(treatment_group)\n            continue', 1)))
  add('C03', 'subset test becomes issuperset', 'bad', 'R3/pruning', edit(mm, MMQ + 'exhaustive_search.skip_if_subset', lambda n: isinstance(n, ast.Attribute) and n.attr == 'issubset', 'set(p).issuperset'))
  add('C03', 'sizes sliced [:-1]', 'bad', 'R1/full-iteration', edit(mm, MMQ + 'exhaustive_search', lambda n: isinstance(n, ast.For) and norm(n.target) == 'treatment_group_size',
                                                                   lambda s, n: s.replace('in treatment_group_sizes:', 'in list(treatment_group_sizes)[:-1]:', 1)))
  add('C03', 'push guarded by tests_ok', 'bad', 'R2/skip-audit', edit(mm, MMQ + 'exhaustive_search', lambda n: isinstance(n, ast.Expr) and norm(n) == 'results.push(0, design)',
                                                               lambda s, n: 'if diag.tests_ok:\n            results.push(0, design)'))
  add('C03', 'two Scoring arguments swapped', 'bad', 'R5/ordering', edit(sc, 'TBRMMScore.score', is_call('Scoring'),
                                                                        lambda s, n: s.replace('int(self.diag.corr_test), int(self.diag.aatest.test_ok)', 'int(self.diag.aatest.test_ok), int(self.diag.corr_test)')))
  add('C03', 'round(corr, 1)', 'bad', 'R5/ordering', edit(sc, 'TBRMMScore.score', lambda n: isinstance(n, ast.Call) and norm(n) == 'round(self.diag.corr, 2)', 'round(self.diag.corr, 1)'))
  add('C03', 'skip on an extra diagnostic condition', 'bad', 'R2/skip-audit', edit(mm, MMQ + 'exhaustive_search', lambda n: isinstance(n, ast.Assign) and norm(n) == 'corr = diag.corr',
                                                                                  lambda s, n: 'corr = diag.corr\n          if corr < 0.5:\n            continue'))
  add('C03', 'benign: loop variable renamed', 'benign', None,
      edit(mm, MMQ + 'exhaustive_search.skip_if_subset', lambda n: isinstance(n, ast.For), lambda s, n: s.replace('for p in', 'for pattern in').replace('set(p)', 'set(pattern)')))
  # ---- C04
  add('C04', 'assignments of the installed index selected by membership only (table order, not the given order)', 'bad', 'R4/single-source',
      edit(md, 'TBRMMData.geo_index@setter', is_assign_to('self.geo_assignments'),
           lambda s, n: 'self.geo_assignments = self.geo_eligibility.get_eligible_assignments(list(self.geo_eligibility.data.index[self.geo_eligibility.data.index.isin(geos)]), indices=True)'))
  add('C04', 'no deep copy of the reused diagnostics object', 'bad', 'R2/copy-before-escape',
      edit(mm, MMQ + 'exhaustive_search', lambda n: isinstance(n, ast.Call) and norm(n.func).endswith('TBRMMDesign'), lambda s, n: s.replace('copy.deepcopy(diag)', 'diag')))
  add('C04', 'treatment series built from the control group', 'bad', 'R1/provenance', edit(mm, MMQ + 'greedy_search', lambda n: isinstance(n, ast.Assign) and norm(n.targets[0]) == 'design_diag',
                                                                                          lambda s, n: s.replace('group_star_trt[k]', 'group_star_ctl[k]')))
  add('C04', 'window takes the first columns', 'bad', 'R3/window', edit(mm, MMQ + '__init__', lambda n: isinstance(n, ast.Assign) and norm(n.targets[0]) == 'data.df',
                                                                       lambda s, n: 'data.df = data.df.iloc[:, :parameters.n_pretest_max]'))
  add('C04', 'last score entry from budget_range[0]', 'bad', 'R5/score-entry', edit(mm, MMQ + 'exhaustive_search', lambda n: isinstance(n, ast.Assign) and norm(n.targets[0]) == 'iroas',
                                                                                   lambda s, n: 'iroas = req_impact / budget_range[0]'))
  add('C04', '_array not selected by the setter argument', 'bad', 'R4/single-source', edit(md, 'TBRMMData.geo_index@setter', is_assign_to('self._array'), lambda s, n: 'self._array = self.df.to_numpy()'))
  add('C04', 'aggregate sums over dates', 'bad', 'R4/single-source', edit(md, 'TBRMMData.aggregate_time_series', lambda n: isinstance(n, ast.Return), lambda s, n: s.replace('axis=0', 'axis=1')))
  add('C04', 'benign: score no longer deep-copies but is forced in the same iteration', 'benign', None,
      edit(mm, MMQ + 'exhaustive_search', lambda n: isinstance(n, ast.Assign) and norm(n.targets[0]) == 'design_score', lambda s, n: 'design_score = TBRMMScore(diag)'))
  # ---- C13
  add('C13', 'greedy filter without the control-size block', 'bad', 'R2/',
      delete_stmt(mm, MMQ + 'design_within_constraints', lambda n: isinstance(n, ast.If) and norm(n.test) == 'self.parameters.control_geos_range is not None'))
  add('C13', 'greedy scores another diagnostics object', 'bad', 'R3/provenance', edit(mm, MMQ + 'greedy_search', lambda n: isinstance(n, ast.Assign) and norm(n.targets[0]) == 'design_score',
                                                                                     lambda s, n: 'design_score = TBRMMScore(tmp_diag)'))
  # ---- C11
  add('C11', 'second ctx index ranges over the whole class', 'bad', 'R2/normal-form', edit(mm, MMQ + 'count_max_designs', lambda n: isinstance(n, ast.For) and norm(n.target) == 'i_cctx',
                                                                                          lambda s, n: s.replace('range(1 + n_ctx - i_ctx)', 'range(1 + n_ctx)', 1)))
  add('C11', 'binomial of the remainder uses n_ctx', 'bad', 'R2/normal-form', edit(mm, MMQ + 'count_max_designs', lambda n: isinstance(n, ast.Assign) and norm(n.targets[0]) == 'n5',
                                                                                  lambda s, n: 'n5 = comb(n_ctx, i_cctx, exact=True)'))
  add('C11', '(n_ct - i_ct) dropped from the control size', 'bad', 'R2/normal-form', edit(mm, MMQ + 'count_max_designs', lambda n: isinstance(n, ast.Assign) and norm(n.targets[0]) == 'n_ctl',
                                                                                         lambda s, n: 'n_ctl = n_c_fixed + i_cx + i_cctx'))
  add('C11', 'exact=False', 'bad', 'R2/exact', edit(mm, MMQ + 'count_max_designs', lambda n: isinstance(n, ast.Assign) and norm(n.targets[0]) == 'n1', lambda s, n: 'n1 = comb(n_ct, i_ct, exact=False)'))
  # ---- C12
  add('C12', 'response column reshaped into the table after a sort on the date only', 'bad', 'R3/order-taint',
      edit(md, 'TBRMMData.__init__', lambda n: isinstance(n, ast.Assign) and norm(n.targets[0]) == 'df' and 'pivot_table' in norm(n.value),
           lambda s, n: "by_date_ = df.sort_values('date', kind='stable')\n    df = pd.DataFrame(by_date_[response_column].to_numpy().reshape(by_date_['date'].nunique(), by_date_['geo'].nunique()).T, index=pd.Index(by_date_['geo'].iloc[:by_date_['geo'].nunique()], name='geo')) if len(df) == by_date_['date'].nunique() * by_date_['geo'].nunique() else df.pivot_table(values=response_column, index='geo', columns='date', fill_value=0)"))
  add('C12', 'geo index built by iterating the set', 'bad', 'R3/order-taint', edit(mm, MMQ + 'geo_assignments', is_assign_to('geo_index'), lambda s, n: 'geo_index = list(geos_included)'))
  add('C12', 'astype(str) removed from the data side', 'bad', 'R1/canonical-ids', delete_stmt(md, 'TBRMMData.__init__', lambda n: isinstance(n, ast.Assign) and 'astype' in norm(n.value)))
  add('C12', 'absolute threshold on a response-scaled quantity', 'bad', 'R5/dimension', edit(dg, DG + 'aatest', lambda n: isinstance(n, ast.Compare) and norm(n) == 'lower * upper < 0', 'lower * upper < 1e-12'))
  add('C12', 'budget compared at a fixed number of decimals', 'bad', 'R5/dimension',
      edit(mm, MMQ + 'exhaustive_search', lambda n: isinstance(n, ast.Assign) and norm(n.targets[0]) == 'req_budget', lambda s, n: 'req_budget = round(req_impact / self.parameters.iroas, 2)'))
  add('C12', 'benign: a unit-free quantity is rounded', 'benign', None,
      edit(dg, DG + 'corr_test', lambda n: isinstance(n, ast.Return), lambda s, n: 'corr_rounded_ = round(self.corr, 6)\n    ' + s))
  add('C12', 'benign: sorted(set)', 'benign', None, edit(md, 'TBRMMData.geo_index@setter', lambda n: isinstance(n, ast.Assign) and norm(n.targets[0]) == 'missing_geos' and 'sorted' in norm(n.value),
                                                         lambda s, n: 'missing_geos = sorted(missing_geos)'))
  # ---- C15
  add('C15', 'no fill_value', 'bad', 'R1/ingestion', edit(md, 'TBRMMData.__init__', lambda n: isinstance(n, ast.Call) and isinstance(n.func, ast.Attribute) and n.func.attr == 'pivot_table',
                                                          lambda s, n: s.replace(',\n                        fill_value=0', '').replace(', fill_value=0', '')))
  add('C15', 'means sorted ascending', 'bad', 'R1/ingestion', edit(md, 'TBRMMData.__init__', lambda n: isinstance(n, ast.Constant) and n.value is False and 'ascending' in norm(n._parent), 'True'))
  add('C15', 'shares divided by the number of geos', 'bad', 'R1/ingestion', edit(md, 'TBRMMData.__init__', is_assign_to('geo_share'), lambda s, n: 'geo_share = geo_means / len(geo_means)'))
  add('C15', 'revert fix: .loc[set]', 'bad', 'R4/set-selector', edit(md, 'TBRMMData.__init__', lambda n: isinstance(n, ast.Call) and norm(n) == 'sorted(common_geos)', 'common_geos'))
  add('C15', 'benign: list(sorted(...))', 'benign', None, edit(md, 'TBRMMData.__init__', lambda n: isinstance(n, ast.Call) and norm(n) == 'sorted(common_geos)', 'list(sorted(common_geos))'))
  # ---- C05 / C06 / C07 / C18
  add('C05', '1/n instead of 1/n_test in the multiplier', 'bad', 'R1/calibration', edit(dg, DG + '_impact_estimate', is_assign_to('sq'), lambda s, n: s.replace('1 / n_test)', '1 / n)')))
  add('C05', 'degrees of freedom n - 1', 'bad', 'R1/calibration', edit(dg, DG + '_impact_estimate', is_assign_to('tq_pow'), lambda s, n: s.replace('n - 2', 'n - 1')))
  add('C05', 'correlation tested by truthiness (0.0 treated as missing)', 'bad', 'R3/arguments',
      edit(dg, DG + 'required_impact', lambda n: isinstance(n, ast.Compare) and norm(n) == 'corr is None', 'not corr'))
  add('C05', 'benign: correlation passed through a local', 'benign', None,
      edit(dg, DG + 'required_impact', lambda n: isinstance(n, ast.Call) and norm(n) == 'self.estimate_required_impact(self.corr)', 'self.estimate_required_impact(corr)'))
  add('C05', 'sigma without the correlation factor', 'bad', 'R1/calibration', edit(dg, DG + 'estimate_required_impact', is_assign_to('sigma'), lambda s, n: 'sigma = np.std(self.y, ddof=2)'))
  add('C05', 'benign: n_test distributed into the square root', 'benign', None,
      edit(dg, DG + '_impact_estimate', is_assign_to('term'), lambda s, n: 'term = (tq_sig + tq_pow) * np.sqrt(n_test ** 2 * (phi * (n + 1) / (n * n_test * (n - 1)) + 1 / n + 1 / n_test))'))
  add('C06', 'one_to_t instead of one_to_t**2', 'bad', 'R5/posterior-shape', edit(tb, 'TBR.causal_cumulative_distribution', is_assign_to('var_from_params'), lambda s, n: 'var_from_params = var_params * one_to_t'))
  add('C06', 'df_resid - 1', 'bad', 'R5/posterior-shape', edit(tb, 'TBR.causal_cumulative_distribution', is_assign_to('delta_df'), lambda s, n: 'delta_df = self.pre_period_model.df_resid - 1'))
  add('C06', 'probability without 1 -', 'bad', 'R2/one-distribution', edit(tb, 'TBR.summary', lambda n: isinstance(n, ast.BinOp) and norm(n).startswith('1.0 - delta.cdf'), lambda s, n: s.replace('1.0 - ', '', 1)))
  add('C06', 'revert fix: signed rescale in the scale', 'bad', 'R4/scale-sign', edit(tb, 'TBR.causal_cumulative_distribution', lambda n: isinstance(n, ast.Call) and norm(n) == 'np.abs(rescale)', 'rescale'))
  add('C06', 'groupby(sort=False)', 'bad', 'R1/information-flow', edit(tb, 'TBR._construct_analysis_data', lambda n: isinstance(n, ast.Call) and norm(n.func).endswith('groupby'), lambda s, n: s.replace('(preserve)', '(preserve, sort=False)')))
  for pid_, rule_ in (('C06', 'R1/read-does-not-mutate'), ('C07', 'R2/read-does-not-mutate'), ('C18', 'R5/read-does-not-mutate')):
    add(pid_, 'the covariance matrix of the fitted model is scaled in place (a second read sees it scaled twice)', 'bad', rule_,
        edit(tb, 'TBR.causal_cumulative_distribution', is_assign_to('vsigma'),
             lambda s, n: 'vsigma = self.pre_period_model.normalized_cov_params\n    vsigma *= self.pre_period_model.scale'))
    add(pid_, 'benign: a private copy of the covariance matrix is scaled in place', 'nonviolation', None,
        edit(tb, 'TBR.causal_cumulative_distribution', is_assign_to('vsigma'),
             lambda s, n: 'vsigma = np.array(self.pre_period_model.normalized_cov_params)\n    vsigma *= self.pre_period_model.scale'))
  add('C06', 'benign: probability via sf', 'benign', None, edit(tb, 'TBR.summary', lambda n: isinstance(n, ast.BinOp) and norm(n).startswith('1.0 - delta.cdf'), lambda s, n: 'delta.sf(threshold).reshape(ndates)'))
  add('C07', 'upper column times cost from lower', 'bad', 'R1/fixed-cost-algebra', edit(ti, 'TBRiROAS.summary', lambda n: isinstance(n, ast.Assign) and norm(n.targets[0]) == "report['incremental_response_upper']" and 'cost' in norm(n.value),
                                                                                         lambda s, n: "report['incremental_response_upper'] = report['lower'] * cost"))
  add('C07', 'rvs without random_state', 'bad', 'R2/determinism', edit(ti, 'TBRiROAS.summary', lambda n: isinstance(n, ast.Call) and norm(n.func) == 'delta_cost.rvs', 'delta_cost.rvs(nsims)'))
  # the global generator: reached for the seed 0 (truthiness test) / only when no seed was given
  add('C07', 'seed normalised with a truthiness test: random_state=0 falls back to the global generator', 'bad', 'R2/determinism',
      edit(ti, 'TBRiROAS.summary', lambda n: isinstance(n, ast.Assign) and norm(n.targets[0]) == 'sims_response',
           lambda s, n: 'rng_ = np.random.mtrand._rand if not random_state else np.random.RandomState(random_state)\n    sims_response = delta_response.rvs(nsims, random_state=random_state)'))
  add('C07', 'benign: the global generator only when random_state is None', 'benign', None,
      edit(ti, 'TBRiROAS.summary', lambda n: isinstance(n, ast.Assign) and norm(n.targets[0]) == 'sims_response',
           lambda s, n: 'rng_ = np.random.mtrand._rand if random_state is None else np.random.RandomState(random_state)\n    sims_response = delta_response.rvs(nsims, random_state=random_state)'))
  add('C07', 'scenario mask: pre or test rows of the control group only (treatment pre-period spend lost)', 'bad', 'R3/scenario',
      edit(ti, 'TBRiROAS._is_fixed_cost_scenario', is_assign_to('tot_costs'),
           lambda s, n: 'tot_costs = adata.loc[adata[self.df_names.period].isin((pre, test)) & (adata.index.get_level_values(0) == cntrl), key_cost].sum()'))
  add('C07', 'benign: scenario total written with one mask', 'benign', None,
      edit(ti, 'TBRiROAS._is_fixed_cost_scenario', is_assign_to('tot_costs'),
           lambda s, n: 'tot_costs = sum(adata.loc[(adata[self.df_names.period] == pre) | ((adata[self.df_names.period] == test) & (adata.index.get_level_values(0) == cntrl)), key_cost])'))
  add('C07', 'scenario predicate ignores the pre-period', 'bad', 'R3/scenario', edit(ti, 'TBRiROAS._is_fixed_cost_scenario', is_assign_to('tot_costs'), lambda s, n: 'tot_costs = sum(test_costs_cntrl)'))
  add('C18', 'counterfactual lower uses the lower difference', 'bad', 'R1/column-algebra',
      edit(ti, 'TBRiROAS.estimate_pointwise_and_cumulative_effect', lambda n: isinstance(n, ast.BinOp) and norm(n) == 'treat_vec - upper', 'treat_vec - lower'))
  add('C18', 'cumulative quantile arguments swapped', 'bad', 'R2/same-distribution',
      edit(ti, 'TBRiROAS.estimate_pointwise_and_cumulative_effect', lambda n: isinstance(n, ast.Call) and norm(n) == 'delta_metric.ppf(tail_probability)' and isinstance(n._parent, ast.Dict), 'delta_metric.ppf(1 - tail_probability)'))
  add('C18', 'container guard on the upper bound removed', 'bad', 'R4/container',
      delete_stmt(cc, 'EstimatedTimeSeriesWithConfidenceInterval.__init__', lambda n: isinstance(n, ast.If) and "self['upper'] <" in norm(n.test)))
  add('C18', 'cumulative bounds taken from the central interval at coverage = level', 'bad', 'R3/quantile-order',
      edit(ti, 'TBRiROAS.estimate_pointwise_and_cumulative_effect', lambda n: isinstance(n, ast.Call) and norm(n) == 'delta_metric.ppf(tail_probability)' and isinstance(n._parent, ast.Dict),
           'delta_metric.interval(1 - tails * tail_probability)[0]'))
  add('C18', 'benign: central interval with coverage 1 - 2 * tail probability', 'benign', None,
      edit(ti, 'TBRiROAS.estimate_pointwise_and_cumulative_effect', lambda n: isinstance(n, ast.Call) and norm(n) == 'delta_metric.ppf(tail_probability)' and isinstance(n._parent, ast.Dict),
           'delta_metric.interval(1 - 2 * tail_probability)[0]'))
  add('C16', 'entries cast to int before the 0/1 test', 'bad', 'R2/validation',
      edit(ge, 'GeoEligibility.__init__', lambda n: isinstance(n, ast.Assign) and norm(n.targets[0]) == 'df.geo' and 'astype' in norm(n.value),
           lambda s_, n: s_ + "\n    df[['control', 'treatment', 'exclude']] = df[['control', 'treatment', 'exclude']].astype('int')"))
  add('C19', 'labels in first-appearance order zipped with the sorted pivot rows', 'bad', 'R6/positional-pairing',
      multi(edit(td, 'TBRDiagnostics._detect_noisy_geos', lambda n: isinstance(n, ast.Assign) and norm(n) == 'geos = data.index', 'geos = data.index\n    first_seen_ = self._data[self._df_names.geo].unique()\n    rows_ = data.to_numpy()\n    pairs_ = [(g_, r_) for g_, r_ in zip(first_seen_, rows_)]')))
  add('C19', 'benign: index labels zipped with the rows of the same table', 'benign', None,
      multi(edit(td, 'TBRDiagnostics._detect_noisy_geos', lambda n: isinstance(n, ast.Assign) and norm(n) == 'geos = data.index', 'geos = data.index\n    rows_ = data.to_numpy()\n    pairs_ = [(g_, r_) for g_, r_ in zip(data.index, rows_)]')))
  # ---- additional benign twins (behaviour-preserving refactors that must stay silent)
  def rename_local(module, qual, oldn, newn):
    def apply(root):
      sx = Src(root, module)
      fn = sx.func(qual)
      names = [n for n in ast.walk(fn) if isinstance(n, ast.Name) and n.id == oldn]
      if not names:
        raise NA('no local %s' % oldn)
      for n in sorted(names, key=lambda n: (n.lineno, n.col_offset), reverse=True):
        sx.replace(n, newn)
        sx.offs = sx.offs    # offsets before the edited position stay valid because we go backwards
      sx.save()
    return apply
  add('C02', 'benign: local renamed in exhaustive_search (treatment_share)', 'benign', None, rename_local(mm, MMQ + 'exhaustive_search', 'treatment_share', 'trt_share'))
  add('C03', 'benign: local renamed in exhaustive_search (req_budget)', 'benign', None, rename_local(mm, MMQ + 'exhaustive_search', 'req_budget', 'budget_needed'))
  add('C04', 'benign: local renamed in exhaustive_search (diag)', 'benign', None, rename_local(mm, MMQ + 'exhaustive_search', 'diag', 'diagnostics'))
  add('C01', 'benign: greedy tables renamed', 'benign', None, multi(rename_local(mm, MMQ + 'greedy_search', 'group_star_trt', 'best_trt'), rename_local(mm, MMQ + 'greedy_search', 'group_star_ctl', 'best_ctl')))
  add('C09', 'benign: greedy tables and flag renamed', 'benign', None, multi(rename_local(mm, MMQ + 'greedy_search', 'group_star_ctl', 'best_ctl'), rename_local(mm, MMQ + 'greedy_search', 'needs_matching', 'pending')))
  add('C13', 'benign: greedy tables renamed', 'benign', None, rename_local(mm, MMQ + 'greedy_search', 'group_star_trt', 'best_trt'))
  add('C02', 'benign: | written as or in the range helper', 'benign', None,
      edit(mm, MMQ + '_constraint_not_satisfied', lambda n: isinstance(n, ast.Return), lambda s, n: 'return (parameter_value < constraint_lower) or (parameter_value > constraint_upper)'))
  add('C02', 'benign: range stop written 1 + hi', 'benign', None, edit(mm, MMQ + 'treatment_group_size_range', lambda n: isinstance(n, ast.Return), lambda s, n: 'return range(n_geos_from, 1 + n_geos_to)'))
  add('C02', 'benign: geo-ratio filter as chained comparison', 'benign', None,
      edit(mm, MMQ + '_control_group_size_generator', lambda n: isinstance(n, ast.If) and 'geo_ratio >=' in norm(n.test), lambda s, n: s.replace('geo_ratio >= geo_tol_min and geo_ratio <= geo_tol_max', 'geo_tol_min <= geo_ratio <= geo_tol_max')))
  add('C14', 'benign: push branches swapped (>= first)', 'benign', None,
      edit(hd, 'HeapDict.push', lambda n: isinstance(n, ast.If), lambda s, n: 'if len(queue) >= self._size:\n      heapq.heappushpop(queue, item)\n    else:\n      heapq.heappush(queue, item)'))
  add('C14', 'benign: push then pop when over capacity', 'benign', None,
      edit(hd, 'HeapDict.push', lambda n: isinstance(n, ast.If), lambda s, n: 'heapq.heappush(queue, item)\n    if len(queue) > self._size:\n      heapq.heappop(queue)'))
  add('C15', 'benign: shares via means.sum()', 'benign', None, edit(md, 'TBRMMData.__init__', is_assign_to('geo_share'), lambda s, n: 'geo_share = geo_means / geo_means.sum()'))
  add('C05', 'benign: factors of the impact swapped', 'benign', None, edit(dg, DG + 'estimate_required_impact', is_assign_to('impact'), lambda s, n: 'impact = sigma * term'))
  add('C05', 'benign: sigma via an intermediate variable', 'benign', None, edit(dg, DG + 'estimate_required_impact', is_assign_to('sigma'),
                                                                              lambda s, n: 'sd_y = np.std(self.y, ddof=2)\n    sigma = sd_y * np.sqrt(1 - corr ** 2)'))
  add('C06', 'benign: variance terms added in the other order', 'benign', None, edit(tb, 'TBR.causal_cumulative_distribution', is_assign_to('var_from_params'), lambda s, n: 'var_from_params = one_to_t**2 * var_params'))
  add('C07', 'benign: rescale written as cost ** -1', 'benign', None, edit(ti, 'TBRiROAS.summary', lambda n: isinstance(n, ast.BinOp) and norm(n) == '1.0 / cost', 'cost ** -1'))
  add('C08', 'benign: resets moved into an _invalidate() helper', 'benign', None,
      multi(edit(dg, DG + 'x@setter', is_assign_to('self._corr'), lambda s, n: 'self._invalidate()'),
            *[delete_stmt(dg, DG + 'x@setter', is_assign_to('self.' + fld)) for fld in ('_required_impact', '_pretestfit', '_aatest', '_bbtest', '_dwtest', '_tests_ok')],
            edit(dg, DG + 'corr', lambda n: isinstance(n, ast.FunctionDef) and n.name == 'corr',
                 lambda s, n: s) ,
            edit(dg, 'TBRMMDiagnostics', lambda n: isinstance(n, ast.FunctionDef) and n.name == '__repr__',
                 lambda s, n: 'def _invalidate(self):\n    self._corr = None\n    self._required_impact = None\n    self._pretestfit = None\n    self._aatest = None\n    self._bbtest = None\n    self._dwtest = None\n    self._tests_ok = None\n\n  ' + s)))
  add('C10', 'benign: search_results builds new designs with the constructor', 'benign', None,
      edit(mm, MMQ + 'search_results', lambda n: isinstance(n, ast.Call) and norm(n.func) == 'dataclasses.replace',
           lambda s, n: 'TBRMMDesign(d.score, treatment_geos, control_geos, d.diag)'))
  add('C16', 'benign: guards use `not in df` spelling', 'benign', None, edit(ge, 'GeoEligibility.__init__', lambda n: isinstance(n, ast.Compare) and norm(n) == "'geo' not in df.columns", "not ('geo' in df.columns)"))
  add('C17', 'benign: validation calls reordered', 'benign', None,
      multi(edit(dp, 'TBRMMDesignParameters.__post_init__', lambda n: isinstance(n, ast.Expr) and "'n_designs'" in norm(n), lambda s, n: "self._test_value_vs_threshold('n_test', '>=', self._N_TEST_MIN)"),
            edit(dp, 'TBRMMDesignParameters.__post_init__', lambda n: isinstance(n, ast.Expr) and "'n_test'" in norm(n), lambda s, n: "self._test_value_vs_threshold('n_designs', '>=', 1)", 0)))
  add('C19', 'benign: mask computed inline', 'benign', None,
      multi(edit(td, 'TBRDiagnostics.fit', lambda n: isinstance(n, ast.Assign) and norm(n.targets[0]) == 'self._data' and '~ exclude_dates' in norm(n.value).replace('~exclude', '~ exclude'),
                 lambda s, n: 'self._data = self._data[~ exclude_dates]')))
  good_sweep = ("one_day = pd.Timedelta(days=1)\n  covered_until = None\n  for window in sorted(periods, key=lambda w: w.first_day):\n    start = window.first_day\n"
                "    if covered_until is not None and start <= covered_until:\n      start = covered_until + one_day\n"
                "    days_exclude += pd.date_range(start, window.last_day, freq='D').to_list()\n"
                "    covered_until = window.last_day if covered_until is None else max(covered_until, window.last_day)")
  add('C20', 'correct sweep with a monotone marker (no set): must not be a violation', 'nonviolation', None,
      multi(edit(ut, 'expand_time_windows', lambda n: isinstance(n, ast.For), lambda s, n: good_sweep),
            edit(ut, 'expand_time_windows', lambda n: isinstance(n, ast.Return), lambda s, n: 'return days_exclude')))
  add('C20', 'sweep whose marker moves backwards', 'bad', 'R1/dedup',
      multi(edit(ut, 'expand_time_windows', lambda n: isinstance(n, ast.For), lambda s, n: good_sweep.replace('window.last_day if covered_until is None else max(covered_until, window.last_day)', 'window.last_day')),
            edit(ut, 'expand_time_windows', lambda n: isinstance(n, ast.Return), lambda s, n: 'return days_exclude')))
  merge_sweep = ("one_day = pd.Timedelta(days=1)\n  ordered = sorted(periods, key=lambda w: w.first_day)\n  merged = [(ordered[0].first_day, ordered[0].last_day)] if ordered else []\n"
                 "  for window in ordered[1:]:\n    first_day, last_day = merged[-1]\n    if window.first_day <= last_day + one_day:\n"
                 "      merged[-1] = (first_day, max(last_day, window.last_day))\n    else:\n      merged.append((window.first_day, window.last_day))\n"
                 "  for first_day, last_day in merged:\n    days_exclude += pd.date_range(first_day, last_day, freq='D').to_list()")
  add('C20', 'merge sweep extending the last block with max(): must not be a violation', 'nonviolation', None,
      multi(edit(ut, 'expand_time_windows', lambda n: isinstance(n, ast.For), lambda s, n: merge_sweep),
            edit(ut, 'expand_time_windows', lambda n: isinstance(n, ast.Return), lambda s, n: 'return days_exclude')))
  add('C20', 'merge sweep whose block end moves backwards', 'bad', 'R1/dedup',
      multi(edit(ut, 'expand_time_windows', lambda n: isinstance(n, ast.For), lambda s, n: merge_sweep.replace('max(last_day, window.last_day)', 'window.last_day')),
            edit(ut, 'expand_time_windows', lambda n: isinstance(n, ast.Return), lambda s, n: 'return days_exclude')))
  add('C20', 'benign: accumulate with extend', 'benign', None, edit(ut, 'expand_time_windows', lambda n: isinstance(n, ast.AugAssign), lambda s, n: "days_exclude.extend(pd.date_range(\n        window.first_day, window.last_day, freq='D').to_list())"))
  add('C11', 'benign: loops over ct and tx swapped', 'benign', None,
      multi(edit(mm, MMQ + 'count_max_designs', lambda n: isinstance(n, ast.For) and norm(n.target) == 'i_ct', lambda s, n: s.replace('for i_ct in range(1 + n_ct):', 'for i_ct in range(n_ct + 1):', 1))))
  add('C12', 'benign: comparison operands flipped', 'benign', None, edit(dg, DG + 'corr_test', lambda n: isinstance(n, ast.Compare) and norm(n) == 'corr >= self._par.min_corr', 'self._par.min_corr <= corr'))
  add('C18', 'benign: crossed bound written with the operands named', 'benign', None,
      edit(ti, 'TBRiROAS.estimate_pointwise_and_cumulative_effect', lambda n: isinstance(n, ast.BinOp) and norm(n) == 'treat_vec - upper', '-upper + treat_vec'))
  return V


def _run_variant(args):
  idx, prop, name, kind, rule, root, base_keys = args
  from mmsa import check
  V = corpus()
  ed = V[idx][4]
  d = tempfile.mkdtemp(prefix='mmsa_selftest_')
  try:
    shutil.copytree(os.path.join(root, 'matched_markets'), os.path.join(d, 'matched_markets'),
                    ignore=shutil.ignore_patterns('__pycache__', '*.pyc', 'csv', 'notebook', 'tests'))
    try:
      ed(d)
    except NA as e:
      return (idx, 'na', str(e))
    except SyntaxError as e:
      return (idx, 'na', 'edit does not compile: %s' % e)
    try:
      code, lines, rep = check.run_property(prop, 'quick', d, write=False, selftest=False)
    except Exception as e:     # pragma: no cover
      return (idx, 'error', repr(e))
    new = [i for i in rep.instances if i.status == 'violation' and '|'.join(map(str, i.key(prop))) not in base_keys]
    und = [i for i in rep.instances if i.status == 'undecided']
    if kind == 'bad':
      hit = [i for i in new if rule is None or i.rule.startswith(rule)]
      if hit:
        return (idx, 'ok', '%s at %s' % (hit[0].rule, hit[0].loc))
      if new:
        return (idx, 'fail', 'flagged by %s instead of %s' % (sorted({i.rule for i in new}), rule))
      return (idx, 'fail', 'not flagged (exit %d, %d undecided: %s)' % (code, len(und), '; '.join(u.detail[:80] for u in und[:2])))
    if new:
      return (idx, 'fail', 'benign twin flagged: %s' % '; '.join('%s %s' % (i.rule, i.detail[:100]) for i in new[:2]))
    if und and kind == 'nonviolation':
      return (idx, 'ok', 'no violation (undecided, as expected for a shape the rule does not decide)')
    if und:
      return (idx, 'fail', 'benign twin undecided: %s' % '; '.join(u.detail[:100] for u in und[:2]))
    return (idx, 'ok', 'silent')
  finally:
    shutil.rmtree(d, ignore_errors=True)


def _run_seeded(args):
  sid, prop, root, base_keys, expect = args
  import subprocess
  from mmsa import check
  here = os.path.dirname(os.path.dirname(os.path.abspath(__file__)))
  patch = os.path.join(here, 'seeded', sid, 'patch.diff')
  d = tempfile.mkdtemp(prefix='mmsa_seeded_')
  try:
    shutil.copytree(os.path.join(root, 'matched_markets'), os.path.join(d, 'matched_markets'),
                    ignore=shutil.ignore_patterns('__pycache__', '*.pyc', 'csv', 'notebook', 'tests'))
    p = subprocess.run(['git', 'apply', '-p1', patch], cwd=d, capture_output=True, text=True)
    if p.returncode != 0:
      return (sid, 'na', 'patch does not apply to this tree')
    code, lines, rep = check.run_property(prop, 'quick', d, write=False, selftest=False)
    new = [i for i in rep.instances if i.status == 'violation' and '|'.join(map(str, i.key(prop))) not in base_keys]
    if new:
      return (sid, 'ok', '%s at %s' % (new[0].rule, new[0].loc))
    if expect == 2 and code == 2:
      return (sid, 'ok', 'undecided, as recorded in seeded/%s/meta.json' % sid)
    return (sid, 'fail', 'seeded change not reported (exit %d)' % code)
  finally:
    shutil.rmtree(d, ignore_errors=True)


def _run_benign(args):
  """A behaviour-preserving refactoring (benign/<id>/patch.diff): the check must not report a violation on it."""
  bid, prop, root, base_keys = args
  import subprocess
  from mmsa import check
  here = os.path.dirname(os.path.dirname(os.path.abspath(__file__)))
  patch = os.path.join(here, 'benign', bid, 'patch.diff')
  d = tempfile.mkdtemp(prefix='mmsa_benign_')
  try:
    shutil.copytree(os.path.join(root, 'matched_markets'), os.path.join(d, 'matched_markets'),
                    ignore=shutil.ignore_patterns('__pycache__', '*.pyc', 'csv', 'notebook', 'tests'))
    p = subprocess.run(['git', 'apply', '-p1', patch], cwd=d, capture_output=True, text=True)
    if p.returncode != 0:
      return (bid, 'na', 'patch does not apply to this tree')
    code, lines, rep = check.run_property(prop, 'quick', d, write=False, selftest=False)
    new = [i for i in rep.instances if i.status == 'violation' and '|'.join(map(str, i.key(prop))) not in base_keys]
    if new:
      return (bid, 'fail', 'false alarm on a behaviour-preserving refactoring: %s at %s' % (new[0].rule, new[0].loc))
    return (bid, 'ok', 'silent' if code == 0 else 'undecided (exit 2), no violation')
  finally:
    shutil.rmtree(d, ignore_errors=True)


def run(prop, root, jobs=16):
  from mmsa import check
  V = corpus()
  mine = [(i, v) for i, v in enumerate(V) if v[0] == prop]
  code, lines, rep = check.run_property(prop, 'quick', root, write=False, selftest=False)
  base_keys = {'|'.join(map(str, i.key(prop))) for i in rep.instances if i.status == 'violation'}
  tasks = [(i, v[0], v[1], v[2], v[3], root, base_keys) for i, v in mine]
  results = []
  if tasks:
    with ProcessPoolExecutor(min(jobs, len(tasks))) as ex:
      results = list(ex.map(_run_variant, tasks))
  out = {'variants': len(tasks), 'bad_variants': sum(1 for i, v in mine if v[2] == 'bad'), 'benign_twins': sum(1 for i, v in mine if v[2] in ('benign', 'nonviolation')),
         'passed': 0, 'not_applicable': [], 'failed': [], 'details': []}
  for (idx, status, msg) in results:
    name = V[idx][1]
    out['details'].append({'variant': name, 'kind': V[idx][2], 'expected_rule': V[idx][3], 'status': status, 'result': msg})
    if status == 'ok':
      out['passed'] += 1
    elif status == 'na':
      out['not_applicable'].append('%s (%s)' % (name, msg))
    else:
      out['failed'].append('%s: %s' % (name, msg))
  # seeded changes written by independent sub-agents for this property
  import json
  here = os.path.dirname(os.path.dirname(os.path.abspath(__file__)))
  sdir = os.path.join(here, 'seeded')
  stasks = []
  if os.path.isdir(sdir):
    for sid in sorted(os.listdir(sdir)):
      mp = os.path.join(sdir, sid, 'meta.json')
      if sid.startswith(prop + '-') and os.path.exists(mp):
        meta = json.load(open(mp))
        stasks.append((sid, prop, root, base_keys, meta.get('own_check', {}).get('exit', 1)))
  out['seeded_changes'] = len(stasks)
  if stasks:
    with ProcessPoolExecutor(min(jobs, len(stasks))) as ex:
      for sid, status, msg in ex.map(_run_seeded, stasks):
        out['details'].append({'variant': 'seeded/' + sid, 'kind': 'seeded', 'status': status, 'result': msg})
        if status == 'ok':
          out['passed'] += 1
        elif status == 'na':
          out['not_applicable'].append('seeded/%s (%s)' % (sid, msg))
        else:
          out['failed'].append('seeded/%s: %s' % (sid, msg))
  # behaviour-preserving refactorings written by independent sub-agents: no check may raise an alarm on any of them
  bdir = os.path.join(here, 'benign')
  btasks = [(b, prop, root, base_keys) for b in sorted(os.listdir(bdir))] if os.path.isdir(bdir) else []
  out['benign_refactorings'] = len(btasks)
  if btasks:
    with ProcessPoolExecutor(min(jobs, len(btasks))) as ex:
      for bid, status, msg in ex.map(_run_benign, btasks):
        if status != 'ok':
          out['details'].append({'variant': 'benign/' + bid, 'kind': 'benign-refactoring', 'status': status, 'result': msg})
        if status == 'ok':
          out['passed'] += 1
        elif status == 'na':
          out['not_applicable'].append('benign/%s (%s)' % (bid, msg))
        else:
          out['failed'].append('benign/%s: %s' % (bid, msg))
  # on the tree being checked every variant should be applicable; tolerate up to a third being N/A (refactored tree)
  if tasks and len(out['not_applicable']) > len(tasks) // 3:
    out['failed'].append('%d of %d variants not applicable: the corpus no longer matches the tree' % (len(out['not_applicable']), len(tasks)))
  return out
