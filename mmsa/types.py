"""Tiny type resolution (expression -> repo class) and call-graph closure.

Adequate for this code base: receivers are `self`, annotated attributes,
locals bound to constructor calls, and module-level class aliases.
"""
import ast

from mmsa import cfg as cfgmod, dataflow
from mmsa.core import dotted, norm, walk_no_nested


def module_consts(module):
  """Module-level names bound once to a display of constants (tables such as _VALUE_COLUMNS = ['a', 'b'])."""
  out = {}
  for name, v in module.assigns.items():
    if isinstance(v, (ast.Tuple, ast.List, ast.Set)) and all(isinstance(x, ast.Constant) for x in v.elts):
      out[name] = v
    # scalar constants: _ZERO_COST_ORDER = -10, _LEVEL_DECIMALS = 4 (upper-case / underscore names only: module-level configuration)
    elif name.upper() == name and (isinstance(v, ast.Constant) and isinstance(v.value, (int, float, str)) and not isinstance(v.value, bool)
                                   or (isinstance(v, ast.UnaryOp) and isinstance(v.op, ast.USub) and isinstance(v.operand, ast.Constant))):
      out[name] = v
  return out


class FuncCtx:
  """CFG + reaching definitions of one function, cached."""
  _cache = {}

  def __init__(self, f):
    self.f = f
    self.g = cfgmod.CFG(f.node)
    self.g._funcinfo = f
    self.rd = dataflow.Reaching(self.g)
    self.rd.consts = module_consts(f.module)
    self.rd.ntuples = frozenset(name for name, v in f.module.assigns.items()
                                if isinstance(v, ast.Call) and norm(v.func).endswith('namedtuple') and len(v.args) == 2)
    self.stmt_of = {}
    for n in self.g.nodes:
      for e in self.node_exprs(n):
        for sub in ast.walk(e):
          self.stmt_of.setdefault(id(sub), n)

  @staticmethod
  def node_exprs(n):
    st = n.ast
    if n.kind == 'test':
      return [n.expr]
    if n.kind == 'for':
      return [st.iter, st.target]
    if n.kind == 'with':
      return [i.context_expr for i in st.items]
    if n.kind in ('stmt', 'return', 'raisestmt') and st is not None and not isinstance(st, (ast.FunctionDef, ast.AsyncFunctionDef, ast.ClassDef)):
      return [st]
    return []

  @classmethod
  def of(cls, f):
    k = (id(f.node))
    if k not in cls._cache:
      cls._cache[k] = FuncCtx(f)
    return cls._cache[k]

  def node_at(self, sub):
    return self.stmt_of.get(id(sub))


class Types:

  def __init__(self, repo):
    self.repo = repo
    FuncCtx._cache = {}

  def ann_class(self, module, ann):
    """Class named by an annotation expression (Optional[...] stripped)."""
    if ann is None:
      return None
    if isinstance(ann, ast.Constant) and isinstance(ann.value, str):
      try:
        ann = ast.parse(ann.value, mode='eval').body
      except SyntaxError:
        return None
    if isinstance(ann, ast.Subscript) and norm(ann.value) in ('Optional', 'typing.Optional'):
      return self.ann_class(module, ann.slice)
    d = dotted(ann)
    if d is None:
      return None
    r = self.repo.resolve_dotted(module, d)
    if r and r[0] == 'class':
      return r[1]
    return None

  # -- module-level namedtuple types: fields, annotated parameters, construction sites ---------------------
  def nt_fields(self, name):
    for m in self.repo.modules.values():
      v = m.assigns.get(name)
      if isinstance(v, ast.Call) and norm(v.func).endswith('namedtuple') and len(v.args) == 2:
        flds = v.args[1]
        if isinstance(flds, (ast.List, ast.Tuple)) and all(isinstance(x, ast.Constant) for x in flds.elts):
          return [x.value for x in flds.elts]
        if isinstance(flds, ast.Constant) and isinstance(flds.value, str):
          return flds.value.replace(',', ' ').split()
    return None

  def nt_param(self, f, expr, at=None):
    """Name of the namedtuple type a parameter (never re-bound before `at`) is annotated with, or None."""
    if not isinstance(expr, ast.Name):
      return None
    ctx = FuncCtx.of(f)
    for a in f.node.args.posonlyargs + f.node.args.args + f.node.args.kwonlyargs:
      if a.arg == expr.id and a.annotation is not None:
        if at is not None and not all(d.how == 'param' for d in ctx.rd.defs_at(at, expr.id)):
          return None
        ann = a.annotation
        if isinstance(ann, ast.Constant) and isinstance(ann.value, str):
          try:
            ann = ast.parse(ann.value, mode='eval').body
          except SyntaxError:
            return None
        d = dotted(ann)
        if d is not None and self.nt_fields(d.split('.')[-1]) is not None:
          return d.split('.')[-1]
    return None

  def nt_sites(self, name):
    """[(function, call, cfg node)] of every construction `name(...)` in the package."""
    cache = self.__dict__.setdefault('_nt_sites', {})
    if name not in cache:
      out = []
      work = list(self.repo.functions.values())
      while work:
        g = work.pop()
        work.extend(g.nested.values())
        ctx = FuncCtx.of(g)
        for n in ctx.g.nodes:
          for e in ctx.node_exprs(n):
            for sub in walk_no_nested(e):
              if isinstance(sub, ast.Call) and (norm(sub.func) == name or norm(sub.func).endswith('.' + name)):
                out.append((g, sub, n))
      cache[name] = out
    return cache[name]

  def nt_value(self, f, expr, at=None, depth=6):
    """(type name, [(function, construction call, cfg node)]) when `expr` is a value of a module-level namedtuple type
    all of whose possible construction sites are visible: a construction, a call of / iteration over a package function
    returning / yielding constructions, a local bound to one of these, a parameter annotated with the type."""
    if depth <= 0 or expr is None:
      return None
    ctx = FuncCtx.of(f)
    at = at or ctx.node_at(expr)
    if isinstance(expr, ast.Call):
      last = norm(expr.func).split('.')[-1]
      if self.nt_fields(last) is not None:
        return (last, [(f, expr, at)])
      t = self.callee(f, expr, at, depth - 1)
      if t and t[0] == 'func':
        return self._nt_merge([self.nt_value(t[1], s_.value, None, depth - 1) for s_ in walk_no_nested(t[1].node)
                               if isinstance(s_, ast.Return) and s_.value is not None])
      return None
    if isinstance(expr, ast.Name):
      nt = self.nt_param(f, expr, at)
      if nt is not None:
        return (nt, self.nt_sites(nt))
      if at is None:
        return None
      vals = []
      for d in ctx.rd.defs_at(at, expr.id):
        if d.how == 'assign' and d.value is not None:
          vals.append(self.nt_value(f, d.value, d.node, depth - 1))
        elif d.how == 'iter' and isinstance(d.value, ast.Call):
          t = self.callee(f, d.value, d.node, depth - 1)
          if t and t[0] == 'func':
            ys = [s_ for s_ in walk_no_nested(t[1].node) if isinstance(s_, (ast.Yield, ast.YieldFrom))]
            if not ys or any(isinstance(y, ast.YieldFrom) or y.value is None for y in ys):
              return None
            vals.append(self._nt_merge([self.nt_value(t[1], y.value, None, depth - 1) for y in ys]))
          else:
            return None
        else:
          return None
      return self._nt_merge(vals)
    return None

  @staticmethod
  def _nt_merge(vals):
    if not vals or any(v is None for v in vals) or len({v[0] for v in vals}) != 1:
      return None
    return (vals[0][0], [x for v in vals for x in v[1]])

  def nt_attr_args(self, f, expr, at=None, depth=6):
    """[(function, argument expr, cfg node)]: every expression the field read `expr` (an Attribute) can denote."""
    if not isinstance(expr, ast.Attribute):
      return None
    v = self.nt_value(f, expr.value, at, depth)
    if v is None:
      return None
    name, sites = v
    flds = self.nt_fields(name)
    if flds is None or expr.attr not in flds or not sites:
      return None
    i = flds.index(expr.attr)
    out = []
    for g, call, n in sites:
      if any(isinstance(a, ast.Starred) for a in call.args) or any(k.arg is None for k in call.keywords):
        return None
      a = call.args[i] if i < len(call.args) else next((k.value for k in call.keywords if k.arg == expr.attr), None)
      if a is None:
        return None
      out.append((g, a, n))
    if self._nt_replaced(expr.attr):
      return None
    return out

  def _nt_replaced(self, field):
    cache = self.__dict__.setdefault('_nt_repl', None)
    if cache is None:
      cache = self.__dict__['_nt_repl'] = set()
      for g_ in list(self.repo.functions.values()):
        for sub in ast.walk(g_.node):
          if isinstance(sub, ast.Call) and isinstance(sub.func, ast.Attribute) and sub.func.attr == '_replace':
            for k in sub.keywords:
              cache.add(k.arg)
    return field in cache or None in cache

  def nt_field_args(self, name, field):
    """[(function, argument expr, cfg node)] passed for `field` at every construction site; None when one site is not followed."""
    flds = self.nt_fields(name)
    if flds is None or field not in flds:
      return None
    i = flds.index(field)
    out = []
    for g, call, n in self.nt_sites(name):
      if any(isinstance(a, ast.Starred) for a in call.args) or any(k.arg is None for k in call.keywords):
        return None
      a = call.args[i] if i < len(call.args) else next((k.value for k in call.keywords if k.arg == field), None)
      if a is None:
        return None
      out.append((g, a, n))
    # obj._replace(field=...) anywhere re-binds the field
    for g_ in list(self.repo.functions.values()):
      for sub in ast.walk(g_.node):
        if isinstance(sub, ast.Call) and isinstance(sub.func, ast.Attribute) and sub.func.attr == '_replace' and any(k.arg == field or k.arg is None for k in sub.keywords):
          return None
    return out or None

  def self_class(self, f):
    top = f
    while top.outer is not None:
      top = top.outer
    return top.cls

  def type_of(self, f, expr, at=None, depth=6):
    """ClassInfo of the value of `expr` evaluated in function f (at CFG node `at`), or None."""
    if depth <= 0:
      return None
    ctx = FuncCtx.of(f)
    at = at or ctx.node_at(expr)
    if isinstance(expr, ast.Name):
      top = f
      while top is not None:
        if top.params and expr.id == top.params[0] and top.cls is not None and top.kind in ('method', 'getter', 'setter'):
          return top.cls
        top = top.outer
      # parameter annotation
      for a in f.node.args.posonlyargs + f.node.args.args + f.node.args.kwonlyargs:
        if a.arg == expr.id and a.annotation is not None:
          if at is None or all(d.how == 'param' for d in ctx.rd.defs_at(at, expr.id)):
            c = self.ann_class(f.module, a.annotation)
            if c is not None:
              return c
      if at is not None:
        ds = ctx.rd.defs_at(at, expr.id)
        cs = set()
        for d in ds:
          if d.how == 'assign' and d.value is not None:
            cs.add(self.type_of(f, d.value, d.node, depth - 1))
          elif d.how == 'iter':
            cs.add(None)
          else:
            cs.add(None)
        if len(cs) == 1:
          return cs.pop()
      if f.outer is not None:
        # free variable of a nested function: look in the enclosing function
        octx = FuncCtx.of(f.outer)
        for n in octx.g.nodes:
          if n.kind == 'stmt' and n.ast is f.node:
            return self.type_of(f.outer, expr, n, depth - 1)
      return None
    if isinstance(expr, ast.Attribute):
      base = self.type_of(f, expr.value, at, depth - 1)
      if base is None:
        args = self.nt_attr_args(f, expr, at, depth - 1)
        if args:
          cs = {self.type_of(g, a, n, depth - 1) for g, a, n in args}
          if len(cs) == 1:
            return cs.pop()
        return None
      if expr.attr in base.getters:
        g = base.getters[expr.attr]
        return self.ann_class(base.module, g.node.returns)
      if expr.attr in base.annotations:
        return self.ann_class(base.module, base.annotations[expr.attr])
      # field assigned in __init__ from an annotated parameter
      init = base.methods.get('__init__')
      if init is not None:
        for st in walk_no_nested(init.node):
          if isinstance(st, ast.Assign) and any(norm(t) == '%s.%s' % (init.params[0], expr.attr) for t in st.targets):
            return self.type_of(init, st.value, None, depth - 1)
      return None
    if isinstance(expr, ast.Call):
      tgt = self.callee(f, expr, at, depth - 1)
      if tgt is None:
        return None
      kind, obj = tgt
      if kind == 'class':
        return obj
      if kind == 'func':
        return self.ann_class(obj.module, obj.node.returns)
      return None
    if isinstance(expr, ast.IfExp):
      a, b = self.type_of(f, expr.body, at, depth - 1), self.type_of(f, expr.orelse, at, depth - 1)
      return a if a is b else (a or b)
    return None

  def callee(self, f, call, at=None, depth=6):
    """('class', ClassInfo) for constructor calls, ('func', FuncInfo) for resolved
    functions/methods, ('lib', name) for library calls, None if unknown."""
    fn = call.func
    if isinstance(fn, ast.Name):
      # nested function of the enclosing function(s)
      top = f
      while top is not None:
        if fn.id in top.nested:
          if fn.id in getattr(top, 'ambiguous_nested', ()):
            return None
          return ('func', top.nested[fn.id])
        top = top.outer
      r = self.repo.resolve_dotted(f.module, fn.id)
      if r and r[0] in ('class', 'func'):
        return r
      # a local bound once to a bound method / function: share = self.data.aggregate_geo_share; share(geos)
      ctx = FuncCtx.of(f)
      at = at or ctx.node_at(call)
      if at is not None and depth > 0 and fn.id not in f.params:
        d = ctx.rd.single_def(at, fn.id)
        if d is not None and d.how == 'assign' and isinstance(d.value, (ast.Attribute, ast.Name)) and norm(d.value) != fn.id:
          alias = ast.copy_location(ast.Call(func=d.value, args=call.args, keywords=call.keywords), call)
          return self.callee(f, alias, d.node, depth - 1)
      return ('lib', fn.id)
    if isinstance(fn, ast.Attribute):
      d = dotted(fn)
      if d is not None:
        r = self.repo.resolve_dotted(f.module, d)
        if r and r[0] in ('class', 'func'):
          return r
        if r and r[0] == 'lib':
          return r
      base = self.type_of(f, fn.value, at, depth - 1) if depth > 0 else None
      if base is not None:
        if fn.attr in base.methods:
          return ('func', base.methods[fn.attr])
        return None
      # unresolved receiver: a method name defined by exactly one repo class
      owners = [c for c in self.repo.classes.values() if fn.attr in c.methods and not fn.attr.startswith('__')]
      if len(owners) == 1 and fn.attr not in ('copy', 'sum', 'mean', 'push', 'pop', 'get', 'items', 'keys', 'values', 'append',
                                              'index', 'count', 'sort', 'update', 'fit', 'predict', 'plot', 'summary'):
        return ('func', owners[0].methods[fn.attr])
      return ('lib', d or ('?.' + fn.attr))
    return None

  # -- call graph -------------------------------------------------------------
  def callees_of(self, f):
    """Resolved repo functions invoked by f: calls, constructor calls
    (__init__/__post_init__), property loads and stores, comparisons between
    instances (__lt__), callbacks passed by name, nested functions defined."""
    out = []
    ctx = FuncCtx.of(f)
    for n in ctx.g.nodes:
      for e in ctx.node_exprs(n):
        for sub in walk_no_nested(e):
          if isinstance(sub, ast.Call):
            t = self.callee(f, sub, n)
            if t and t[0] == 'func':
              out.append((t[1], sub, n))
            elif t and t[0] == 'class':
              c = t[1]
              for m in ('__init__', '__post_init__'):
                if m in c.methods:
                  out.append((c.methods[m], sub, n))
            for a in list(sub.args) + [k.value for k in sub.keywords]:
              if isinstance(a, ast.Name):
                top = f
                while top is not None:
                  if a.id in top.nested:
                    out.append((top.nested[a.id], sub, n))
                  top = top.outer
          elif isinstance(sub, ast.Attribute):
            base = self.type_of(f, sub.value, n)
            if base is not None:
              if isinstance(sub.ctx, ast.Load) and sub.attr in base.getters:
                out.append((base.getters[sub.attr], sub, n))
              if isinstance(sub.ctx, ast.Store) and sub.attr in base.setters:
                out.append((base.setters[sub.attr], sub, n))
          elif isinstance(sub, ast.Compare):
            for operand in [sub.left] + list(sub.comparators):
              c = self.type_of(f, operand, n)
              if c is not None and '__lt__' in c.methods:
                out.append((c.methods['__lt__'], sub, n))
    return out

  def closure(self, roots):
    seen = {}
    work = list(roots)
    edges = []
    while work:
      f = work.pop()
      if f.qualname in seen:
        continue
      seen[f.qualname] = f
      for g, site, n in self.callees_of(f):
        edges.append((f, g, site))
        if g.qualname not in seen:
          work.append(g)
    return seen, edges
