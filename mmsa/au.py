"""Small AST utilities shared by the property checks."""
import ast

from mmsa.core import dotted, norm, walk_no_nested


def lib_name(module, func_expr):
  """Canonical dotted name of a called library function, looking through the
  module's imports and module-level aliases: heapq.heappush, numpy.sqrt, ..."""
  d = dotted(func_expr)
  if d is None:
    return None
  parts = d.split('.')
  head = parts[0]
  seen = 0
  while head in module.aliases and head not in module.imports and seen < 5:
    parts = module.aliases[head].split('.') + parts[1:]
    head = parts[0]
    seen += 1
  if head in module.imports:
    parts = module.imports[head].split('.') + parts[1:]
  elif head in GLOBAL_IMPORTS and head not in getattr(module, 'assigns', {}) and len(GLOBAL_IMPORTS[head]) == 1:
    # a name that came with code inlined from another module of the package, where it is an import (every module of the
    # package that imports this name means the same thing by it)
    parts = next(iter(GLOBAL_IMPORTS[head])).split('.') + parts[1:]
  return '.'.join(parts)


GLOBAL_IMPORTS = {}      # imported local name -> set of dotted targets over all modules of the package (filled by core.Repo)


def calls_in(node):
  for sub in walk_no_nested(node):
    if isinstance(sub, ast.Call):
      yield sub


def kwarg(call, name, default=None):
  for k in call.keywords:
    if k.arg == name:
      return k.value
  return default


def arg(call, i, name=None, default=None):
  if i is not None and len(call.args) > i and not any(isinstance(a, ast.Starred) for a in call.args[:i + 1]):
    return call.args[i]
  if name is not None:
    return kwarg(call, name, default)
  return default


def const(node):
  """(True, value) for literal constants incl. negative numbers, else (False, None)."""
  if isinstance(node, ast.Constant):
    return True, node.value
  if isinstance(node, ast.UnaryOp) and isinstance(node.op, ast.USub) and isinstance(node.operand, ast.Constant) \
      and isinstance(node.operand.value, (int, float)):
    return True, -node.operand.value
  return False, None


def is_const(node, value):
  ok, v = const(node)
  return ok and v == value and type(v) == type(value)


def strip_not(e):
  """(expr, negated)"""
  neg = False
  while isinstance(e, ast.UnaryOp) and isinstance(e.op, ast.Not):
    e = e.operand
    neg = not neg
  return e, neg


def stmts_of(func_node):
  """All statements of a function (not of nested defs), in source order."""
  out = []
  for sub in walk_no_nested(func_node):
    if isinstance(sub, ast.stmt) and sub is not func_node:
      out.append(sub)
  out.sort(key=lambda s: (s.lineno, s.col_offset))
  return out


def parent_chain(node):
  p = getattr(node, '_parent', None)
  while p is not None:
    yield p
    p = getattr(p, '_parent', None)


def enclosing_stmt(node):
  if isinstance(node, ast.stmt):
    return node
  for p in parent_chain(node):
    if isinstance(p, ast.stmt):
      return p
  return None


def loc(f, node):
  return '%s:%d' % (f.module.relpath, getattr(node, 'lineno', 0))


_BUILTIN_ROOTS = {'self', 'np', 'numpy', 'pd', 'pandas', 'sp', 'scipy', 'stats', 'math', 'len', 'abs', 'float', 'int', 'min', 'max', 'sum', 'round', 'range', 'sorted',
                  'list', 'tuple', 'set', 'dict', 'bool', 'str', 'True', 'False', 'None', 'isinstance', 'zip', 'enumerate', 'copy', 'sm', 'op', 'operator', 'itertools',
                  'utils', 'semantics', 'common_classes', 'heapdict', 'geoeligibility', 'functools', 'collections', 'heapq', 'dataclasses'}


import builtins as _builtins
_REPO_MODULES = {'tbrmmscore', 'tbrmmdiagnostics', 'tbrmmdesign', 'tbrmmdata', 'tbrmmdesignparameters', 'tbrmatchedmarkets', 'tbr', 'tbr_iroas', 'tbrdiagnostics',
                 'geoeligibility', 'heapdict', 'utils', 'semantics', 'common_classes'}
_BUILTIN_ROOTS |= {n_ for n_ in dir(_builtins) if not n_.startswith('_')}


_MODULE_ROOTS = {'np', 'numpy', 'pd', 'pandas', 'sp', 'scipy', 'stats', 'math', 'copy', 'sm', 'op', 'operator', 'itertools', 'functools', 'collections', 'heapq',
                 'dataclasses', 'random', 're', 'warnings', 'typing', 'scipy_special', 'special'} | _REPO_MODULES


def op_key(attr):
  """Key of the library operation an Attribute node denotes: 'np.std' for a module-rooted dotted name, '.std' for an
  attribute or method of any other receiver; None for a direct field of `self`/`cls` (a quantity, not an operation)."""
  d = []
  x = attr
  while isinstance(x, ast.Attribute):
    d.append(x.attr)
    x = x.value
  if isinstance(x, ast.Name) and x.id in _MODULE_ROOTS:
    return '.'.join([x.id] + d[::-1])
  if isinstance(attr.value, ast.Name) and attr.value.id in ('self', 'cls'):
    return None
  return '.' + attr.attr


def unknown_ops(expr):
  """Library operations used by `expr` that do not occur in the pristine package (mmsa/opvocab.py)."""
  from mmsa import opvocab
  out = []
  inner = set()
  for sub in ast.walk(expr):
    if isinstance(sub, ast.Attribute) and isinstance(sub.ctx, ast.Load) and id(sub) not in inner:
      k = op_key(sub)
      if k is not None and not k.startswith('.'):
        # module-rooted chain: its inner links (np.random in np.random.normal) are not operations of their own
        x = sub.value
        while isinstance(x, ast.Attribute):
          inner.add(id(x))
          x = x.value
      if k is not None and k not in opvocab.OPS and k not in out and k.lstrip('.') not in REPO_DEFINED:
        out.append(k)
  return out


# names of the functions, methods and classes defined in the tree under analysis (set by core.Repo): an attribute of
# that name is code of the package, not a library operation
REPO_DEFINED = set()
CLASS_VALUE_ATTRS = set()      # class-level bindings that are not defs (collaborators, tables): filled by core.Repo


def aliens(expr, vocabulary=(), fields=None):
  """Root names read by `expr` that are neither in `vocabulary` nor well-known module/builtin roots, and are not bound
  inside the expression (comprehension variables, lambda parameters).  An expression without aliens is a *closed term*
  over the vocabulary: when it differs from the expected form it is a recognised different computation; with aliens its
  meaning is not known (a helper, a table entry, an unresolved local)."""
  allowed = set(vocabulary) | _BUILTIN_ROOTS
  bound = set()
  for sub in ast.walk(expr):
    if isinstance(sub, (ast.GeneratorExp, ast.ListComp, ast.SetComp, ast.DictComp)):
      for gen in sub.generators:
        bound |= {x.id for x in ast.walk(gen.target) if isinstance(x, ast.Name)}
    if isinstance(sub, ast.Lambda):
      bound |= {a.arg for a in sub.args.args}
  out = []
  for sub in ast.walk(expr):
    if isinstance(sub, ast.Name) and isinstance(sub.ctx, ast.Load) and sub.id not in allowed and sub.id not in bound and sub.id not in out \
        and not sub.id[:1].isupper() and sub.id not in _REPO_MODULES:       # class names / constants / modules of the package are known things
      out.append(sub.id)
    # with `fields` given, only those attributes of self are known quantities; any other field is an unresolved one
    if fields is not None and isinstance(sub, ast.Attribute) and isinstance(sub.value, ast.Name) and sub.value.id == 'self' and sub.attr not in fields \
        and ('self.' + sub.attr) not in out:
      out.append('self.' + sub.attr)
  # a call through a class-level collaborator that was not specialised away (self._estimator(...) with _estimator = staticmethod(sm.OLS)
  # in a class whose attributes can be re-bound): what is called is not known
  for sub in ast.walk(expr):
    if isinstance(sub, ast.Call) and isinstance(sub.func, ast.Attribute) and isinstance(sub.func.value, ast.Name) and sub.func.value.id in ('self', 'cls') \
        and sub.func.attr in CLASS_VALUE_ATTRS and ('self.%s()' % sub.func.attr) not in out:
      out.append('self.%s()' % sub.func.attr)
  # operations the checker has never been validated against (x.size for len(x), x.std(ddof=2) for np.std(x, ddof=2), ...):
  # the term may well be an equivalent spelling, so it is not a closed term
  for k in unknown_ops(expr):
    if k not in out and k.lstrip('.') not in vocabulary:
      out.append(k)
  return out


_CONTAINER_METHODS = {'to_numpy', 'copy', 'flatten', 'ravel', 'squeeze', 'tolist', 'to_list', 'to_frame', 'to_series', 'view', '__array__'}
_CONTAINER_FUNCS = {'pd.Series', 'pandas.Series', 'np.array', 'np.asarray', 'numpy.array', 'numpy.asarray', 'np.ravel', 'np.squeeze', 'list', 'tuple', 'pd.Index',
                    'np.asanyarray', 'np.ascontiguousarray', 'np.atleast_1d'}


def data_core(e):
  """`e` with the wrappers removed that only change the container of the data, not the numbers or their order:
  pd.Series(X), np.asarray(X), X.to_numpy(), X.values, X.copy(), X.reset_index(drop=True), X.ravel(), ..., and the
  series-of-a-one-column-frame idiom X.reset_index().rename(columns={0: c})[c].  Two terms with the same core denote the
  same data; whether the containers behave alike downstream (index alignment, dtype) is a separate question."""
  import copy as _copy

  def strip(x):
    while True:
      if isinstance(x, ast.Call) and isinstance(x.func, ast.Attribute) and x.func.attr in _CONTAINER_METHODS and not x.args and not x.keywords:
        x = x.func.value
        continue
      if isinstance(x, ast.Attribute) and x.attr == 'values':
        x = x.value
        continue
      if isinstance(x, ast.Call) and isinstance(x.func, ast.Attribute) and x.func.attr == 'reset_index' and not x.args \
          and len(x.keywords) == 1 and x.keywords[0].arg == 'drop' and is_const(x.keywords[0].value, True):
        x = x.func.value
        continue
      if isinstance(x, ast.Call) and norm(x.func) in _CONTAINER_FUNCS and len(x.args) == 1 and not x.keywords and not isinstance(x.args[0], ast.Starred):
        x = x.args[0]
        continue
      # X.reset_index().rename(columns={0: 'c'})['c']  ->  X
      if isinstance(x, ast.Subscript) and isinstance(x.slice, ast.Constant) and isinstance(x.value, ast.Call) and isinstance(x.value.func, ast.Attribute) \
          and x.value.func.attr == 'rename' and isinstance(x.value.func.value, ast.Call) and isinstance(x.value.func.value.func, ast.Attribute) \
          and x.value.func.value.func.attr == 'reset_index' and not x.value.func.value.args and not x.value.func.value.keywords:
        kw = kwarg(x.value, 'columns')
        if isinstance(kw, ast.Dict) and len(kw.keys) == 1 and is_const(kw.keys[0], 0) and isinstance(kw.values[0], ast.Constant) and kw.values[0].value == x.slice.value:
          x = x.value.func.value.func.value
          continue
      break
    for fld, val in list(ast.iter_fields(x)):
      if isinstance(val, ast.AST):
        setattr(x, fld, strip(val))
      elif isinstance(val, list):
        setattr(x, fld, [strip(v) if isinstance(v, ast.AST) else v for v in val])
    return x
  return strip(_copy.deepcopy(e))


def verdict_text(ok, expr, vocabulary=()):
  """Three-valued verdict for a pattern rule: True when the pattern matched; otherwise False if `expr` is a closed term
  over the vocabulary (a recognised different computation) and None if it still reads unresolved names."""
  if ok:
    return True, []
  al = aliens(expr, vocabulary)
  return (None if al else False), al


def alternatives(rd, node, expr, keep=(), depth=12):
  """Expanded value(s) of `expr` at `node`: one per reaching definition when it is a bare local with several plain
  assignments (`u = inf` on one branch, `u = q(...)` on the other), else the single expansion."""
  if isinstance(expr, ast.Name):
    ds = rd.defs_at(node, expr.id)
    if len(ds) > 1 and all(d.how == 'assign' and d.value is not None for d in ds):
      return [rd.expand(d.node, d.value, depth=depth, keep=keep)[0] for d in sorted(ds, key=lambda d_: d_.node.id)]
  return [rd.expand(node, expr, depth=depth, keep=keep)[0]]


def order_blind(expr, name):
  """Every read of the collection `name` in `expr` goes through an operation that does not see the order of its elements
  (set(), frozenset(), len(), sorted(), membership tests, isin(), set algebra): the value of `expr` is then the same for
  every permutation of the collection.  Reads of the form `name is None` say nothing about order and are ignored.
  False when some read is order-sensitive; None when `expr` does not read `name` at all."""
  par = {}
  for x_ in ast.walk(expr):
    for ch_ in ast.iter_child_nodes(x_):
      par[id(ch_)] = x_
  seen = False
  for x_ in ast.walk(expr):
    if not (isinstance(x_, ast.Name) and x_.id == name):
      continue
    p0_ = par.get(id(x_))
    if isinstance(p0_, ast.Compare) and len(p0_.ops) == 1 and isinstance(p0_.ops[0], (ast.Is, ast.IsNot)) and is_const(p0_.comparators[0], None):
      continue
    seen = True
    cur, blind = x_, False
    while id(cur) in par:
      p_ = par[id(cur)]
      if isinstance(p_, ast.Call) and isinstance(p_.func, ast.Name) and p_.func.id in ('set', 'frozenset', 'len', 'sorted', 'Counter', 'sum', 'min', 'max') and cur in p_.args:
        blind = True
      if isinstance(p_, ast.Call) and isinstance(p_.func, ast.Attribute) and p_.func.attr in ('isin', 'issubset', 'issuperset', 'isdisjoint', 'difference', 'intersection', 'union',
                                                                                               'symmetric_difference') and cur in p_.args:
        blind = True
      if isinstance(p_, ast.Compare) and any(isinstance(o_, (ast.In, ast.NotIn)) for o_ in p_.ops) and cur in p_.comparators:
        blind = True
      if isinstance(p_, (ast.GeneratorExp, ast.ListComp, ast.SetComp)) and isinstance(par.get(id(p_)), ast.Call) \
          and norm(par[id(p_)].func) in ('all', 'any', 'set', 'frozenset', 'sum', 'len'):
        blind = True
      # [f(g) for g in name if c(g)] used only for its truth value (is anything left?): the same for every order
      if isinstance(p_, (ast.GeneratorExp, ast.ListComp, ast.SetComp)) and any(cur is g_ and g_.iter is x_ for g_ in p_.generators):
        up_ = par.get(id(p_))
        while isinstance(up_, (ast.UnaryOp, ast.BoolOp)) and (not isinstance(up_, ast.UnaryOp) or isinstance(up_.op, ast.Not)):
          up_ = par.get(id(up_))
        if up_ is None and isinstance(p_, (ast.ListComp, ast.SetComp)):
          blind = True
      cur = p_
    if not blind:
      return False
  return True if seen else None


BUILTIN_EXCEPTIONS = frozenset(n for n in dir(__import__('builtins')) if isinstance(getattr(__import__('builtins'), n), type)
                               and issubclass(getattr(__import__('builtins'), n), BaseException))


def raised_class(repo, f, s, depth=3):
  """Name of the exception class a raise statement constructs: 'ValueError', another class name, 're-raise', or None when
  the raised object is not followed to a construction (a helper that builds the exception is followed through its returns)."""
  exc = s.exc
  if exc is None:
    return 're-raise'

  def of_expr(e, fn, d):
    if d <= 0:
      return None
    if isinstance(e, ast.Call):
      nm = norm(e.func)
      if nm in BUILTIN_EXCEPTIONS:
        return nm
      r = None
      if isinstance(e.func, (ast.Name, ast.Attribute)):
        try:
          r = repo.resolve_dotted(fn.module, dotted(e.func))
        except Exception:
          r = None
      if r and r[0] == 'func':
        h = r[1]
        rets = [x for x in walk_no_nested(h.node) if isinstance(x, ast.Return)]
        names = {of_expr(x.value, h, d - 1) if x.value is not None else None for x in rets}
        if len(names) == 1:
          return names.pop()
        return None
      if r and r[0] == 'class':
        c = r[1]
        bases = [norm(b) for b in c.node.bases]
        for b in bases:
          if b in BUILTIN_EXCEPTIONS:
            return 'ValueError' if b == 'ValueError' else c.name
        return None
      return None
    if isinstance(e, ast.Name):
      if e.id in BUILTIN_EXCEPTIONS:
        return e.id
      # the name bound by an enclosing `except ... as e`: re-raising what was caught
      p = getattr(e, '_parent', None)
      while p is not None and p is not fn.node:
        if isinstance(p, ast.ExceptHandler) and p.name == e.id:
          return 're-raise'
        p = getattr(p, '_parent', None)
      vals = [a.value for a in walk_no_nested(fn.node) if isinstance(a, ast.Assign) and len(a.targets) == 1
              and isinstance(a.targets[0], ast.Name) and a.targets[0].id == e.id]
      names = {of_expr(v, fn, d - 1) for v in vals}
      if vals and len(names) == 1:
        return names.pop()
      return None
    return None
  return of_expr(exc, f, depth)




def unfollowed_calls(repo, f, mentions=None):
  """Calls left in f (after inlining) whose callee is defined in the repository: a module-level function (decorated,
  generator, early returns ... whatever kept it from being inlined), a method reached through self / cls / a class name,
  or a nested def.  With `mentions` (a set of names) only calls one of whose arguments reads one of those names.
  An absence-based verdict about f ("no guard of this kind") is not final while such a call receives the data."""
  out = []
  nested = set(getattr(f, 'nested', {}) or {})
  for c in walk_no_nested(f.node):
    if not isinstance(c, ast.Call):
      continue
    fn = c.func
    name = None
    if isinstance(fn, ast.Name):
      if fn.id in nested or ('%s.%s' % (f.module.name, fn.id)) in repo.functions:
        name = fn.id
      else:
        r = repo.resolve_dotted(f.module, fn.id)
        if r and r[0] == 'func':
          name = fn.id
    elif isinstance(fn, ast.Attribute):
      r = None
      try:
        r = repo.resolve_dotted(f.module, dotted(fn))
      except Exception:
        r = None
      if r and r[0] == 'func':
        name = dotted(fn)
      elif isinstance(fn.value, ast.Name) and f.cls is not None and fn.value.id in (f.params[:1] + ['cls']) \
          and (fn.attr in f.cls.methods):
        name = dotted(fn)
    if name is None:
      continue
    if mentions is not None:
      args = list(c.args) + [k.value for k in c.keywords]
      if not any(isinstance(x, ast.Name) and x.id in mentions for a_ in args for x in ast.walk(a_)):
        continue
    out.append((c, name))
  return out


_PC = []


def _pinned_classes():
  """Classes of the pinned tree (mmsa/pinned_classes.json): an object of one of them is not a delegation to unknown code."""
  if not _PC:
    import json, os
    with open(os.path.join(os.path.dirname(os.path.abspath(__file__)), 'pinned_classes.json')) as fh:
      _PC.append(set(json.load(fh)))
  return _PC[0]


def delegations(repo, f):
  """Places where function f (as normalised) hands work to repository code the rules do not follow: calls of functions
  that are not anchors of the pinned tree and were not inlined (generators, decorated or recursive helpers, closures
  defined once per branch), and constructions of classes none of whose methods is an anchor (a helper class introduced
  by a refactoring: a state machine, a validator object, a pipeline).  While such a place exists, "f does not do X" is
  not a fact about the program: X may be done there.  [(node, description)]"""
  pinned = getattr(repo, 'pinned_names', None) or set()
  out = []
  pinned_classes = {q.rsplit('.', 1)[0] for q in pinned} | _pinned_classes()
  for c, name in unfollowed_calls(repo, f):
    r = None
    try:
      r = repo.resolve_dotted(f.module, dotted(c.func)) if isinstance(c.func, (ast.Name, ast.Attribute)) else None
    except Exception:
      r = None
    h = r[1] if r and r[0] == 'func' else None
    if h is None and isinstance(c.func, ast.Attribute) and f.cls is not None and c.func.attr in f.cls.methods:
      h = f.cls.methods[c.func.attr]
    if h is None and isinstance(c.func, ast.Name) and c.func.id in (getattr(f, 'nested', {}) or {}):
      if f.nested[c.func.id].qualname not in pinned or c.func.id in getattr(f, 'ambiguous_nested', ()):
        out.append((c, 'the local function %s' % c.func.id))
      continue
    if h is not None and h.qualname.replace('@setter', '') not in pinned:
      out.append((c, 'the helper %s' % h.qualname))
  for c in walk_no_nested(f.node):
    if isinstance(c, ast.Call) and isinstance(c.func, (ast.Name, ast.Attribute)):
      try:
        r = repo.resolve_dotted(f.module, dotted(c.func))
      except Exception:
        r = None
      if r and r[0] == 'class' and r[1].qualname not in pinned_classes:
        out.append((c, 'an object of the helper class %s' % r[1].qualname))
      # a module-level callable object:  _validate = _Checks(...)  ...  _validate(self, group)
      if isinstance(c.func, ast.Name) and c.func.id in getattr(f.module, 'assigns', {}) and isinstance(f.module.assigns[c.func.id], (ast.Call, ast.Lambda)) \
          and not any(isinstance(x, ast.Name) and x.id == c.func.id and isinstance(x.ctx, ast.Store) for x in ast.walk(f.node)):
        v = f.module.assigns[c.func.id]
        lib = False
        if isinstance(v, ast.Call):
          try:
            rv = repo.resolve_dotted(f.module, dotted(v.func)) if isinstance(v.func, (ast.Name, ast.Attribute)) else None
          except Exception:
            rv = None
          lib = bool(rv and rv[0] == 'lib') and not any(isinstance(a_, ast.Name) and (('%s.%s' % (f.module.name, a_.id)) in repo.functions) for a_ in ast.walk(v))
        if not lib:
          out.append((c, 'the module-level callable %s = %s' % (c.func.id, norm(v)[:40])))
  return out


def class_delegations(repo, cls):
  """Ways in which methods of `cls` can come from somewhere the rules do not look: a class decorator other than
  dataclasses.dataclass (it may install methods), base classes other than object, a metaclass, a class-level
  assignment of a dunder (`__lt__ = helper`).  While one exists, "the class defines no method M" is not a fact."""
  out = []
  for d in cls.node.decorator_list:
    t = norm(d.func if isinstance(d, ast.Call) else d)
    if t.split('.')[-1] in ('dataclass', 'total_ordering') and not t.startswith('_'):
      if t.split('.')[-1] == 'total_ordering':
        out.append('the class decorator @%s' % t)
      continue
    out.append('the class decorator @%s' % t)
  for b in cls.node.bases:
    if norm(b) in ('object',):
      continue
    r = None
    if repo is not None and hasattr(repo, 'resolve_dotted'):
      try:
        r = repo.resolve_dotted(cls.module, dotted(b))
      except Exception:
        r = None
    if r and r[0] == 'class' and getattr(repo, 'inherited', None) is not None:
      # a base class of the package: its members were merged into the class at load time; what can still hide there is
      # what ITS decorators / bases supply
      out += class_delegations(repo, r[1])
      continue
    out.append('the base class %s' % norm(b))
  for k in cls.node.keywords:
    out.append('the class keyword %s' % (k.arg or '**'))
  for st in cls.node.body:
    if isinstance(st, ast.Assign):
      for t in st.targets:
        if isinstance(t, ast.Name) and t.id.startswith('__') and t.id.endswith('__') and t.id not in ('__slots__', '__hash__', '__doc__'):
          out.append('the class-level binding %s = %s' % (t.id, norm(st.value)[:40]))
  return out
