"""Small AST utilities shared by the property checks."""
import ast

from mmsa.core import dotted, norm, walk_no_nested


def lib_name(module, func_expr):
  """Canonical dotted name of a called library function, looking through the
  module's imports and module-level aliases: heapq.heappush, numpy.sqrt, ..."""
  d = dotted(func_expr)
  if d is None:
    return None
  parts = d.split('.')
  head = parts[0]
  seen = 0
  while head in module.aliases and head not in module.imports and seen < 5:
    parts = module.aliases[head].split('.') + parts[1:]
    head = parts[0]
    seen += 1
  if head in module.imports:
    parts = module.imports[head].split('.') + parts[1:]
  return '.'.join(parts)


def calls_in(node):
  for sub in walk_no_nested(node):
    if isinstance(sub, ast.Call):
      yield sub


def kwarg(call, name, default=None):
  for k in call.keywords:
    if k.arg == name:
      return k.value
  return default


def arg(call, i, name=None, default=None):
  if i is not None and len(call.args) > i and not any(isinstance(a, ast.Starred) for a in call.args[:i + 1]):
    return call.args[i]
  if name is not None:
    return kwarg(call, name, default)
  return default


def const(node):
  """(True, value) for literal constants incl. negative numbers, else (False, None)."""
  if isinstance(node, ast.Constant):
    return True, node.value
  if isinstance(node, ast.UnaryOp) and isinstance(node.op, ast.USub) and isinstance(node.operand, ast.Constant) \
      and isinstance(node.operand.value, (int, float)):
    return True, -node.operand.value
  return False, None


def is_const(node, value):
  ok, v = const(node)
  return ok and v == value and type(v) == type(value)


def strip_not(e):
  """(expr, negated)"""
  neg = False
  while isinstance(e, ast.UnaryOp) and isinstance(e.op, ast.Not):
    e = e.operand
    neg = not neg
  return e, neg


def stmts_of(func_node):
  """All statements of a function (not of nested defs), in source order."""
  out = []
  for sub in walk_no_nested(func_node):
    if isinstance(sub, ast.stmt) and sub is not func_node:
      out.append(sub)
  out.sort(key=lambda s: (s.lineno, s.col_offset))
  return out


def parent_chain(node):
  p = getattr(node, '_parent', None)
  while p is not None:
    yield p
    p = getattr(p, '_parent', None)


def enclosing_stmt(node):
  if isinstance(node, ast.stmt):
    return node
  for p in parent_chain(node):
    if isinstance(p, ast.stmt):
      return p
  return None


def loc(f, node):
  return '%s:%d' % (f.module.relpath, getattr(node, 'lineno', 0))
