"""Small AST utilities shared by the property checks."""
import ast

from mmsa.core import dotted, norm, walk_no_nested


def lib_name(module, func_expr):
  """Canonical dotted name of a called library function, looking through the
  module's imports and module-level aliases: heapq.heappush, numpy.sqrt, ..."""
  d = dotted(func_expr)
  if d is None:
    return None
  parts = d.split('.')
  head = parts[0]
  seen = 0
  while head in module.aliases and head not in module.imports and seen < 5:
    parts = module.aliases[head].split('.') + parts[1:]
    head = parts[0]
    seen += 1
  if head in module.imports:
    parts = module.imports[head].split('.') + parts[1:]
  return '.'.join(parts)


def calls_in(node):
  for sub in walk_no_nested(node):
    if isinstance(sub, ast.Call):
      yield sub


def kwarg(call, name, default=None):
  for k in call.keywords:
    if k.arg == name:
      return k.value
  return default


def arg(call, i, name=None, default=None):
  if i is not None and len(call.args) > i and not any(isinstance(a, ast.Starred) for a in call.args[:i + 1]):
    return call.args[i]
  if name is not None:
    return kwarg(call, name, default)
  return default


def const(node):
  """(True, value) for literal constants incl. negative numbers, else (False, None)."""
  if isinstance(node, ast.Constant):
    return True, node.value
  if isinstance(node, ast.UnaryOp) and isinstance(node.op, ast.USub) and isinstance(node.operand, ast.Constant) \
      and isinstance(node.operand.value, (int, float)):
    return True, -node.operand.value
  return False, None


def is_const(node, value):
  ok, v = const(node)
  return ok and v == value and type(v) == type(value)


def strip_not(e):
  """(expr, negated)"""
  neg = False
  while isinstance(e, ast.UnaryOp) and isinstance(e.op, ast.Not):
    e = e.operand
    neg = not neg
  return e, neg


def stmts_of(func_node):
  """All statements of a function (not of nested defs), in source order."""
  out = []
  for sub in walk_no_nested(func_node):
    if isinstance(sub, ast.stmt) and sub is not func_node:
      out.append(sub)
  out.sort(key=lambda s: (s.lineno, s.col_offset))
  return out


def parent_chain(node):
  p = getattr(node, '_parent', None)
  while p is not None:
    yield p
    p = getattr(p, '_parent', None)


def enclosing_stmt(node):
  if isinstance(node, ast.stmt):
    return node
  for p in parent_chain(node):
    if isinstance(p, ast.stmt):
      return p
  return None


def loc(f, node):
  return '%s:%d' % (f.module.relpath, getattr(node, 'lineno', 0))


_BUILTIN_ROOTS = {'self', 'np', 'numpy', 'pd', 'pandas', 'sp', 'scipy', 'stats', 'math', 'len', 'abs', 'float', 'int', 'min', 'max', 'sum', 'round', 'range', 'sorted',
                  'list', 'tuple', 'set', 'dict', 'bool', 'str', 'True', 'False', 'None', 'isinstance', 'zip', 'enumerate', 'copy', 'sm', 'op', 'operator', 'itertools',
                  'utils', 'semantics', 'common_classes', 'heapdict', 'geoeligibility', 'functools', 'collections', 'heapq', 'dataclasses'}


import builtins as _builtins
_REPO_MODULES = {'tbrmmscore', 'tbrmmdiagnostics', 'tbrmmdesign', 'tbrmmdata', 'tbrmmdesignparameters', 'tbrmatchedmarkets', 'tbr', 'tbr_iroas', 'tbrdiagnostics',
                 'geoeligibility', 'heapdict', 'utils', 'semantics', 'common_classes'}
_BUILTIN_ROOTS |= {n_ for n_ in dir(_builtins) if not n_.startswith('_')}


_MODULE_ROOTS = {'np', 'numpy', 'pd', 'pandas', 'sp', 'scipy', 'stats', 'math', 'copy', 'sm', 'op', 'operator', 'itertools', 'functools', 'collections', 'heapq',
                 'dataclasses', 'random', 're', 'warnings', 'typing', 'scipy_special', 'special'} | _REPO_MODULES


def op_key(attr):
  """Key of the library operation an Attribute node denotes: 'np.std' for a module-rooted dotted name, '.std' for an
  attribute or method of any other receiver; None for a direct field of `self`/`cls` (a quantity, not an operation)."""
  d = []
  x = attr
  while isinstance(x, ast.Attribute):
    d.append(x.attr)
    x = x.value
  if isinstance(x, ast.Name) and x.id in _MODULE_ROOTS:
    return '.'.join([x.id] + d[::-1])
  if isinstance(attr.value, ast.Name) and attr.value.id in ('self', 'cls'):
    return None
  return '.' + attr.attr


def unknown_ops(expr):
  """Library operations used by `expr` that do not occur in the pristine package (mmsa/opvocab.py)."""
  from mmsa import opvocab
  out = []
  inner = set()
  for sub in ast.walk(expr):
    if isinstance(sub, ast.Attribute) and isinstance(sub.ctx, ast.Load) and id(sub) not in inner:
      k = op_key(sub)
      if k is not None and not k.startswith('.'):
        # module-rooted chain: its inner links (np.random in np.random.normal) are not operations of their own
        x = sub.value
        while isinstance(x, ast.Attribute):
          inner.add(id(x))
          x = x.value
      if k is not None and k not in opvocab.OPS and k not in out and k.lstrip('.') not in REPO_DEFINED:
        out.append(k)
  return out


# names of the functions, methods and classes defined in the tree under analysis (set by core.Repo): an attribute of
# that name is code of the package, not a library operation
REPO_DEFINED = set()


def aliens(expr, vocabulary=(), fields=None):
  """Root names read by `expr` that are neither in `vocabulary` nor well-known module/builtin roots, and are not bound
  inside the expression (comprehension variables, lambda parameters).  An expression without aliens is a *closed term*
  over the vocabulary: when it differs from the expected form it is a recognised different computation; with aliens its
  meaning is not known (a helper, a table entry, an unresolved local)."""
  allowed = set(vocabulary) | _BUILTIN_ROOTS
  bound = set()
  for sub in ast.walk(expr):
    if isinstance(sub, (ast.GeneratorExp, ast.ListComp, ast.SetComp, ast.DictComp)):
      for gen in sub.generators:
        bound |= {x.id for x in ast.walk(gen.target) if isinstance(x, ast.Name)}
    if isinstance(sub, ast.Lambda):
      bound |= {a.arg for a in sub.args.args}
  out = []
  for sub in ast.walk(expr):
    if isinstance(sub, ast.Name) and isinstance(sub.ctx, ast.Load) and sub.id not in allowed and sub.id not in bound and sub.id not in out \
        and not sub.id[:1].isupper() and sub.id not in _REPO_MODULES:       # class names / constants / modules of the package are known things
      out.append(sub.id)
    # with `fields` given, only those attributes of self are known quantities; any other field is an unresolved one
    if fields is not None and isinstance(sub, ast.Attribute) and isinstance(sub.value, ast.Name) and sub.value.id == 'self' and sub.attr not in fields \
        and ('self.' + sub.attr) not in out:
      out.append('self.' + sub.attr)
  # operations the checker has never been validated against (x.size for len(x), x.std(ddof=2) for np.std(x, ddof=2), ...):
  # the term may well be an equivalent spelling, so it is not a closed term
  for k in unknown_ops(expr):
    if k not in out and k.lstrip('.') not in vocabulary:
      out.append(k)
  return out


_CONTAINER_METHODS = {'to_numpy', 'copy', 'flatten', 'ravel', 'squeeze', 'tolist', 'to_list', 'to_frame', 'to_series', 'view', '__array__'}
_CONTAINER_FUNCS = {'pd.Series', 'pandas.Series', 'np.array', 'np.asarray', 'numpy.array', 'numpy.asarray', 'np.ravel', 'np.squeeze', 'list', 'tuple', 'pd.Index',
                    'np.asanyarray', 'np.ascontiguousarray', 'np.atleast_1d'}


def data_core(e):
  """`e` with the wrappers removed that only change the container of the data, not the numbers or their order:
  pd.Series(X), np.asarray(X), X.to_numpy(), X.values, X.copy(), X.reset_index(drop=True), X.ravel(), ..., and the
  series-of-a-one-column-frame idiom X.reset_index().rename(columns={0: c})[c].  Two terms with the same core denote the
  same data; whether the containers behave alike downstream (index alignment, dtype) is a separate question."""
  import copy as _copy

  def strip(x):
    while True:
      if isinstance(x, ast.Call) and isinstance(x.func, ast.Attribute) and x.func.attr in _CONTAINER_METHODS and not x.args and not x.keywords:
        x = x.func.value
        continue
      if isinstance(x, ast.Attribute) and x.attr == 'values':
        x = x.value
        continue
      if isinstance(x, ast.Call) and isinstance(x.func, ast.Attribute) and x.func.attr == 'reset_index' and not x.args \
          and len(x.keywords) == 1 and x.keywords[0].arg == 'drop' and is_const(x.keywords[0].value, True):
        x = x.func.value
        continue
      if isinstance(x, ast.Call) and norm(x.func) in _CONTAINER_FUNCS and len(x.args) == 1 and not x.keywords and not isinstance(x.args[0], ast.Starred):
        x = x.args[0]
        continue
      # X.reset_index().rename(columns={0: 'c'})['c']  ->  X
      if isinstance(x, ast.Subscript) and isinstance(x.slice, ast.Constant) and isinstance(x.value, ast.Call) and isinstance(x.value.func, ast.Attribute) \
          and x.value.func.attr == 'rename' and isinstance(x.value.func.value, ast.Call) and isinstance(x.value.func.value.func, ast.Attribute) \
          and x.value.func.value.func.attr == 'reset_index' and not x.value.func.value.args and not x.value.func.value.keywords:
        kw = kwarg(x.value, 'columns')
        if isinstance(kw, ast.Dict) and len(kw.keys) == 1 and is_const(kw.keys[0], 0) and isinstance(kw.values[0], ast.Constant) and kw.values[0].value == x.slice.value:
          x = x.value.func.value.func.value
          continue
      break
    for fld, val in list(ast.iter_fields(x)):
      if isinstance(val, ast.AST):
        setattr(x, fld, strip(val))
      elif isinstance(val, list):
        setattr(x, fld, [strip(v) if isinstance(v, ast.AST) else v for v in val])
    return x
  return strip(_copy.deepcopy(e))


def verdict_text(ok, expr, vocabulary=()):
  """Three-valued verdict for a pattern rule: True when the pattern matched; otherwise False if `expr` is a closed term
  over the vocabulary (a recognised different computation) and None if it still reads unresolved names."""
  if ok:
    return True, []
  al = aliens(expr, vocabulary)
  return (None if al else False), al


def alternatives(rd, node, expr, keep=(), depth=12):
  """Expanded value(s) of `expr` at `node`: one per reaching definition when it is a bare local with several plain
  assignments (`u = inf` on one branch, `u = q(...)` on the other), else the single expansion."""
  if isinstance(expr, ast.Name):
    ds = rd.defs_at(node, expr.id)
    if len(ds) > 1 and all(d.how == 'assign' and d.value is not None for d in ds):
      return [rd.expand(d.node, d.value, depth=depth, keep=keep)[0] for d in sorted(ds, key=lambda d_: d_.node.id)]
  return [rd.expand(node, expr, depth=depth, keep=keep)[0]]


def order_blind(expr, name):
  """Every read of the collection `name` in `expr` goes through an operation that does not see the order of its elements
  (set(), frozenset(), len(), sorted(), membership tests, isin(), set algebra): the value of `expr` is then the same for
  every permutation of the collection.  Reads of the form `name is None` say nothing about order and are ignored.
  False when some read is order-sensitive; None when `expr` does not read `name` at all."""
  par = {}
  for x_ in ast.walk(expr):
    for ch_ in ast.iter_child_nodes(x_):
      par[id(ch_)] = x_
  seen = False
  for x_ in ast.walk(expr):
    if not (isinstance(x_, ast.Name) and x_.id == name):
      continue
    p0_ = par.get(id(x_))
    if isinstance(p0_, ast.Compare) and len(p0_.ops) == 1 and isinstance(p0_.ops[0], (ast.Is, ast.IsNot)) and is_const(p0_.comparators[0], None):
      continue
    seen = True
    cur, blind = x_, False
    while id(cur) in par:
      p_ = par[id(cur)]
      if isinstance(p_, ast.Call) and isinstance(p_.func, ast.Name) and p_.func.id in ('set', 'frozenset', 'len', 'sorted', 'Counter', 'sum', 'min', 'max') and cur in p_.args:
        blind = True
      if isinstance(p_, ast.Call) and isinstance(p_.func, ast.Attribute) and p_.func.attr in ('isin', 'issubset', 'issuperset', 'isdisjoint', 'difference', 'intersection', 'union',
                                                                                               'symmetric_difference') and cur in p_.args:
        blind = True
      if isinstance(p_, ast.Compare) and any(isinstance(o_, (ast.In, ast.NotIn)) for o_ in p_.ops) and cur in p_.comparators:
        blind = True
      if isinstance(p_, (ast.GeneratorExp, ast.ListComp, ast.SetComp)) and isinstance(par.get(id(p_)), ast.Call) \
          and norm(par[id(p_)].func) in ('all', 'any', 'set', 'frozenset', 'sum', 'len'):
        blind = True
      cur = p_
    if not blind:
      return False
  return True if seen else None
